"""C14 - MMC: the returned full matrix is a projected, feasibility-tested
iterate; the iterations start from the init option; the diagonal variant is
non-negative and never returns NaN (numeric budget NOT decided)."""
import ast
from fractions import Fraction
from ..model import FuncInfo, canon
from ..engine import Engine, V, State, NOCONST
from ..algdom import AlgDomain
from ..algebra import UNKNOWN, Poly, SExpr, Lin, Cmp, A
from .. import astutil, guards
from .common import site


def _writes(fnode, name):
  """statements that write into `name` (rebinding, slice store, augmented)."""
  out = []
  for n in ast.walk(fnode):
    if isinstance(n, ast.Assign):
      for t in n.targets:
        base = t.value if isinstance(t, ast.Subscript) else t
        if isinstance(base, ast.Name) and base.id == name:
          out.append(n)
    elif isinstance(n, ast.AugAssign):
      base = n.target.value if isinstance(n.target, ast.Subscript) \
          else n.target
      if isinstance(base, ast.Name) and base.id == name:
        out.append(n)
  return sorted(out, key=lambda x: x.lineno)


def _full_view(repo):
  """_fit_full under canonical role names, discovered from definitions and
  uses: A_old = what is stored into self.A_; A = what A_old copies; w_norm =
  norm(w); w1 = w / w_norm; t1 = t / w_norm; x0 = A.ravel() in the loop;
  x = the projected point; (l, V) = eigh(...); fDC2 = w.dot(A.ravel()) in the
  loop; error2 = the relative violation built from fDC2 and t; eps = what
  error2 is compared with; satisfy = the flag set True right before the
  break of the projection loop."""
  f0 = astutil.inline_helpers(repo, repo.get_func('mmc._BaseMMC._fit_full'))
  roles = {}
  names = lambda e: [x.id for x in ast.walk(e) if isinstance(x, ast.Name)]
  fin = [n for n in ast.walk(f0.node) if isinstance(n, ast.Assign) and
         ast.unparse(n.targets[0]) in ('self.A_[:]', 'self.A_') and
         isinstance(n.value, ast.Name)]
  if fin:
    roles[fin[-1].value.id] = 'A_old'
  old = next((k for k, v in roles.items() if v == 'A_old'), None)
  for n in ast.walk(f0.node):
    if isinstance(n, ast.Assign) and isinstance(n.targets[0], ast.Name):
      t_, v_ = n.targets[0].id, n.value
      if t_ == old and isinstance(v_, ast.Call) and \
              isinstance(v_.func, ast.Attribute) and v_.func.attr == 'copy' \
              and isinstance(v_.func.value, ast.Name):
        roles[v_.func.value.id] = 'A'
  An = next((k for k, v in roles.items() if v == 'A'), None)
  for n in ast.walk(f0.node):
    if isinstance(n, ast.Assign) and isinstance(n.targets[0], ast.Name):
      t_, v_ = n.targets[0].id, n.value
      if isinstance(v_, ast.Call) and (repo.dotted(f0.module, v_.func) or
                                       '').endswith('linalg.norm') and \
              len(v_.args) == 1 and isinstance(v_.args[0], ast.Name):
        roles[t_] = 'w_norm'
        roles[v_.args[0].id] = 'w'
  wn = next((k for k, v in roles.items() if v == 'w_norm'), None)
  wv = next((k for k, v in roles.items() if v == 'w'), None)
  for n in ast.walk(f0.node):
    if isinstance(n, ast.Assign) and isinstance(n.targets[0], ast.Name) and \
            isinstance(n.value, ast.BinOp) and \
            isinstance(n.value.op, ast.Div) and \
            isinstance(n.value.left, ast.Name) and \
            isinstance(n.value.right, ast.Name) and n.value.right.id == wn:
      if n.value.left.id == wv:
        roles[n.targets[0].id] = 'w1'
      else:
        roles[n.targets[0].id] = 't1'
        roles[n.value.left.id] = 't'
  tn = next((k for k, v in roles.items() if v == 't'), None)
  loops = [n for n in ast.walk(f0.node) if isinstance(n, ast.For)]
  for n in ast.walk(f0.node):
    if isinstance(n, ast.Assign) and isinstance(n.targets[0], ast.Tuple) and \
            isinstance(n.value, ast.Call) and \
            (repo.dotted(f0.module, n.value.func) or '').endswith(
                'linalg.eigh') and len(n.targets[0].elts) == 2 and \
            all(isinstance(e, ast.Name) for e in n.targets[0].elts):
      roles[n.targets[0].elts[0].id] = 'l'
      roles[n.targets[0].elts[1].id] = 'V'
  for lp in loops:
    for s_ in lp.body:
      if isinstance(s_, ast.Assign) and isinstance(s_.targets[0], ast.Name):
        txt = ast.unparse(s_.value)
        if An and txt == '%s.ravel()' % An:
          roles[s_.targets[0].id] = 'x0'
        elif An and wv and txt in ('%s.dot(%s.ravel())' % (wv, An),
                                   'np.dot(%s, %s.ravel())' % (wv, An)):
          roles[s_.targets[0].id] = 'fDC2'
  fd = next((k for k, v in roles.items() if v == 'fDC2'), None)
  x0 = next((k for k, v in roles.items() if v == 'x0'), None)
  for n in ast.walk(f0.node):
    if isinstance(n, ast.Assign) and isinstance(n.targets[0], ast.Name):
      nm = names(n.value)
      txt_ = ast.unparse(n.value)
      if tn and tn in nm and (
              (fd and fd in nm) or
              (An and wv and ('%s.dot(%s.ravel())' % (wv, An) in txt_ or
                              '%s.ravel().dot(%s)' % (An, wv) in txt_))):
        roles[n.targets[0].id] = 'error2'
      if x0 and n.targets[0].id != x0 and (
              ast.unparse(n.value) == x0 or
              (isinstance(n.value, ast.BinOp) and x0 in nm and
               n.targets[0].id not in roles)):
        roles.setdefault(n.targets[0].id, 'x')
  er = next((k for k, v in roles.items() if v == 'error2'), None)
  for n in ast.walk(f0.node):
    if isinstance(n, ast.If) and isinstance(n.test, ast.Compare) and \
            isinstance(n.test.left, ast.Name) and n.test.left.id == er and \
            isinstance(n.test.comparators[0], ast.Name):
      roles[n.test.comparators[0].id] = 'eps'
      for i_, s_ in enumerate(n.body):
        if isinstance(s_, ast.Assign) and \
                isinstance(s_.targets[0], ast.Name) and \
                isinstance(s_.value, ast.Constant) and \
                s_.value.value is True and i_ + 1 < len(n.body) and \
                isinstance(n.body[i_ + 1], ast.Break):
          roles[s_.targets[0].id] = 'satisfy'
  # similar / dissimilar pairs: pairs[<labels> == +1], pairs[<labels> == -1]
  def sel_of(e):
    if isinstance(e, ast.Subscript) and isinstance(e.slice, ast.Compare) and \
            len(e.slice.ops) == 1 and isinstance(e.slice.ops[0], ast.Eq) and \
            ast.unparse(e.value) == f0.params()[1]:
      c_ = e.slice.comparators[0]
      v_ = c_.value if isinstance(c_, ast.Constant) else (
          -c_.operand.value if isinstance(c_, ast.UnaryOp) and
          isinstance(c_.op, ast.USub) and
          isinstance(c_.operand, ast.Constant) else None)
      return v_
    return None
  for n in ast.walk(f0.node):
    for (t_, v_) in astutil.assign_pairs(n):
      sv = sel_of(v_)
      if sv == 1:
        roles[t_] = 'pos_pairs'
      elif sv == -1:
        roles[t_] = 'neg_pairs'
  pp = next((k for k, v in roles.items() if v == 'pos_pairs'), None)
  An2 = next((k for k, v in roles.items() if v == 'A'), None)
  old2 = next((k for k, v in roles.items() if v == 'A_old'), None)
  for n in ast.walk(f0.node):
    if isinstance(n, ast.Assign) and isinstance(n.targets[0], ast.Name):
      v_ = n.value
      t_ = n.targets[0].id
      if isinstance(v_, ast.BinOp) and isinstance(v_.op, ast.Sub) and pp and \
              all(isinstance(x, ast.Subscript) and ast.unparse(x.value) == pp
                  for x in (v_.left, v_.right)):
        roles[t_] = 'pos_diff'
      if isinstance(v_, ast.Call) and ast.unparse(v_.func) == 'self._fD' and \
              len(v_.args) == 2:
        a1 = ast.unparse(v_.args[1])
        if a1 == An2:
          roles[t_] = 'obj'
        elif a1 == old2:
          roles[t_] = 'obj_previous'
      if isinstance(v_, ast.Call) and \
              ast.unparse(v_.func) == 'self._grad_projection':
        roles[t_] = 'M'
  Mn = next((k for k, v in roles.items() if v == 'M'), None)
  for n in ast.walk(f0.node):
    if isinstance(n, ast.AugAssign) and ast.unparse(n.target) == An2 and \
            isinstance(n.value, ast.BinOp) and \
            isinstance(n.value.op, ast.Mult):
      for side in (n.value.left, n.value.right):
        if isinstance(side, ast.Name) and side.id != Mn:
          roles[side.id] = 'alpha'
  return f0, astutil.role_view(f0, roles), roles


def rule_scheme(repo, rep):
  R = 'R-FORM:mmc-projected-gradient-scheme'
  rep.rule(R, 'the budget vector w is the sum of outer products of the '
           'similar-pair differences (pairs with label +1); the PSD '
           'projection decomposes the symmetrisation (A + A^T)/2 of the '
           'current matrix; an iterate becomes the kept one only when it is '
           'feasible and the dissimilar-pair objective fD(pairs with label '
           '-1, .) improved on the kept one (first cycle aside); the step is '
           'A += alpha M (alpha > 0) along M = projection of the gradient of '
           'fD orthogonal to the gradient of fS, the fallback A_old + alpha M')
  f0, f, roles_ = _full_view(repo)
  if f is None:
    rep.unknown(R, 'mmc._BaseMMC._fit_full', site(f0), 'roles not resolved')
    return
  key = 'mmc._BaseMMC._fit_full:'
  got = set(roles_.values())
  miss = [r_ for r_ in ('pos_pairs', 'neg_pairs', 'M', 'alpha')
          if r_ not in got]
  if miss:
    # a selection with the wrong label is a known-different form
    sel = [ast.unparse(n.value) for n in ast.walk(f0.node)
           if isinstance(n, ast.Assign) and
           ('[y ==' in ast.unparse(n.value) or '[y !=' in
            ast.unparse(n.value))]
    if ('pos_pairs' in miss or 'neg_pairs' in miss) and sel:
      rep.refuted(R, key + 'pair-selection', site(f0), 'similar / dissimilar '
                  'pairs are selected by %s, documented pairs[y == 1] and '
                  'pairs[y == -1]' % sel)
    else:
      rep.unknown(R, key + 'roles', site(f0), 'roles %s not identified'
                  % miss)
    return
  rep.derived(R, key + 'pair-selection', site(f0))
  # w
  from ..ncalg import NC, NCEval
  from ..ratfunc import Rat as _Rat

  def canon_of(e):
    d = repo.dotted(f.module, e)
    return canon(d) if d else None
  # pos_diff: a difference of the two slots of the similar pairs
  pd = [v for (n, v) in guards.assignments(f.node, 'pos_diff')
        if v is not None]
  def slot(x):
    sl = x.slice.elts if isinstance(x.slice, ast.Tuple) else [x.slice]
    if len(sl) in (2, 3) and all(
            isinstance(p_, ast.Slice) and p_.lower is None and
            p_.upper is None and p_.step is None
            for i_, p_ in enumerate(sl) if i_ != 1) and \
            isinstance(sl[1], ast.Constant):
      return sl[1].value
    return None
  slots = sorted(str(slot(x)) for x in (pd[0].left, pd[0].right)) \
      if pd and isinstance(pd[0], ast.BinOp) else []
  ok_d = slots == ['0', '1'] and isinstance(pd[0].op, ast.Sub)
  if pd:
    rep.add(R, key + 'pos_diff', 'derived' if ok_d else 'unknown', site(f),
            '' if ok_d else 'similar-pair differences %s not recognised'
            % ast.unparse(pd[0]))
  # _fS1(pairs, A) itself is the sum of outer products of the differences
  # of its pairs (certified here on its body), so w may be taken from it
  g1 = repo.get_func('mmc._BaseMMC._fS1')
  fs1_ok = False
  gb = [s_ for s_ in g1.node.body if not (isinstance(s_, ast.Expr) and
                                         isinstance(s_.value, ast.Constant))]
  if len(gb) == 1 and isinstance(gb[0], ast.Return):
    gb = [gb[0]]
  rt_ = [s_ for s_ in gb if isinstance(s_, ast.Return)]
  if rt_:
    un = astutil.unfold(rt_[0].value, g1.node.body, rt_[0])
    pn = g1.params()[1]
    fs1_ok = ast.unparse(un).replace(' ', '') in (
        "np.einsum('ij,ik->jk',%s[:,0,:]-%s[:,1,:],%s[:,0,:]-%s[:,1,:])"
        % ((pn,) * 4),
        "np.einsum('ij,ik->jk',%s[:,1,:]-%s[:,0,:],%s[:,1,:]-%s[:,0,:])"
        % ((pn,) * 4))
  wd = [v for (n, v) in guards.assignments(f.node, 'w') if v is not None]
  w_ok = None
  if wd:
    e = wd[0]
    if isinstance(e, ast.Call) and isinstance(e.func, ast.Attribute) and \
            e.func.attr in ('ravel', 'flatten') and not e.args:
      inner = e.func.value
      D = NC.atom('D')
      ev = NCEval({'pos_diff': D}, {}, canon_of)
      v = ev.ev(inner)
      STOP = ('pos_pairs', 'neg_pairs', 'A', 'A_old', 'pairs', 'y')
      wst = [n_ for (n_, v_) in guards.assignments(f.node, 'w')
             if v_ is not None][0]
      inner_u = astutil.unfold(inner, f.node.body, wst, stop=STOP)
      if v is None and fs1_ok and isinstance(inner_u, ast.Call) and \
              ast.unparse(inner_u.func) == 'self._fS1' and \
              inner_u.args and ast.unparse(inner_u.args[0]) == 'pos_pairs':
        v = D.T().mul(D)
      if v is None and isinstance(inner, ast.Call) and \
              canon_of(inner.func) == canon('numpy.einsum') and \
              len(inner.args) == 3 and \
              isinstance(inner.args[0], ast.Constant):
        spec = str(inner.args[0].value).replace(' ', '')
        a1, a2 = ast.unparse(inner.args[1]), ast.unparse(inner.args[2])
        if a1 == a2 == 'pos_diff':
          ins, out = spec.split('->') if '->' in spec else (spec, '')
          x, y = ins.split(',')
          if len(x) == 2 and len(y) == 2 and x[0] == y[0] and \
                  x[1] != y[1] and sorted(out) == sorted(x[1] + y[1]):
            v = D.T().mul(D)
          elif len(set(x)) < 2 or len(set(y)) < 2:
            w_ok = False
      if v is not None:
        w_ok = v == D.T().mul(D)
  if w_ok is None:
    rep.unknown(R, key + 'w', site(f), 'budget vector %s not recognised'
                % (ast.unparse(wd[0]) if wd else None))
  else:
    rep.add(R, key + 'w', 'derived' if w_ok else 'refuted', site(f),
            '' if w_ok else 'budget vector is %s, documented the flattened '
            'sum of outer products D^T D' % ast.unparse(wd[0]))
  # eigh of the symmetrisation
  for n in ast.walk(f.node):
    if isinstance(n, ast.Assign) and isinstance(n.value, ast.Call) and \
            (repo.dotted(f.module, n.value.func) or '').endswith(
                'linalg.eigh') and n.value.args:
      Am = NC.atom('A')
      v = NCEval({'A': Am}, {}, canon_of).ev(n.value.args[0])
      half = _Rat.const(1) / _Rat.const(2)
      sym = Am.add(Am.T()).scale(half)
      if v is None:
        rep.unknown(R, key + 'eigh-argument', site(f, n), 'argument %s of '
                    'eigh not derivable' % ast.unparse(n.value.args[0]))
      elif v == sym or v == Am:
        rep.derived(R, key + 'eigh-argument', site(f, n))
      else:
        rep.refuted(R, key + 'eigh-argument', site(f, n), 'eigh decomposes '
                    '%r, documented the symmetrisation %r of the current '
                    'matrix' % (v, sym))
  # acceptance: improvement of the dissimilar-pair objective.  Structural:
  # the test guarding `A_old[:] = A` (temporaries unfolded) contains a
  # comparison of two calls of the same objective function whose arguments
  # agree except that one has the kept iterate and the other the new one.
  pm_ = astutil.parents(f.node)

  def block_of(node):
    p_ = pm_.get(node)
    while p_ is not None:
      for fld in ('body', 'orelse', 'finalbody'):
        b_ = getattr(p_, fld, None)
        if isinstance(b_, list) and node in b_:
          return b_
      node, p_ = p_, pm_.get(p_)
    return f.node.body

  def objective_cmp(test, kept, new):
    """'better' | 'worse' | None, and the two calls"""
    for cmp_ in ast.walk(test):
      if not (isinstance(cmp_, ast.Compare) and len(cmp_.ops) == 1 and
              isinstance(cmp_.ops[0], (ast.Lt, ast.LtE, ast.Gt, ast.GtE))):
        continue
      l_, r_ = cmp_.left, cmp_.comparators[0]
      if not (isinstance(l_, ast.Call) and isinstance(r_, ast.Call) and
              ast.unparse(l_.func) == ast.unparse(r_.func) and
              len(l_.args) == len(r_.args) and not l_.keywords and
              not r_.keywords):
        continue
      la = [ast.unparse(x) for x in l_.args]
      ra = [ast.unparse(x) for x in r_.args]
      diff = [(x, y) for x, y in zip(la, ra) if x != y]
      if len(diff) != 1:
        continue
      lt = isinstance(cmp_.ops[0], (ast.Lt, ast.LtE))
      if diff[0] == (kept, new):
        return ('better' if lt else 'worse'), l_, r_
      if diff[0] == (new, kept):
        return ('worse' if lt else 'better'), r_, l_
    return None, None, None
  obj_calls = []
  for n in ast.walk(f.node):
    if isinstance(n, ast.Assign) and isinstance(n.targets[0], ast.Subscript) \
            and ast.unparse(n.targets[0]) == 'A_old[:]' and \
            isinstance(n.value, ast.Name):
      kept, new = 'A_old', n.value.id
      ifs = [p_ for (p_, ch) in astutil.enclosing(f.node, n, ast.If)
             if ch in p_.body]
      verdicts = []
      for p_ in ifs:
        blk = block_of(p_)
        t_ = astutil.unfold(p_.test, blk, p_, stop=(kept, new)) \
            if p_ in blk else p_.test
        v_, ck, cn = objective_cmp(t_, kept, new)
        if v_:
          verdicts.append(v_)
          obj_calls.append((ck, cn))
      tests = [ast.unparse(p_.test) for p_ in ifs]
      if 'better' in verdicts:
        rep.derived(R, key + 'improvement', site(f, n))
      elif 'worse' in verdicts:
        rep.refuted(R, key + 'improvement', site(f, n), 'the iterate is kept '
                    'when the dissimilar-pair objective got WORSE (%s)'
                    % tests)
      elif any(isinstance(x, ast.Compare) and any(
              isinstance(y, (ast.Call, ast.Name)) and
              ('obj' in ast.unparse(y) or '_f' in ast.unparse(y))
              for y in ast.walk(x)) for p_ in ifs
              for x in ast.walk(p_.test)):
        rep.unknown(R, key + 'improvement', site(f, n), 'acceptance test %s '
                    'is not a comparison of one objective at the kept and at '
                    'the new iterate' % tests)
      else:
        rep.refuted(R, key + 'improvement', site(f, n), 'the iterate is kept '
                    'without comparing the dissimilar-pair objective with '
                    'the kept one (%s)' % tests)
  # the compared objective is fD on the dissimilar pairs (or on the
  # differences computed from them)
  for (ck, cn) in obj_calls[:1]:
    fn_ = ast.unparse(ck.func)
    a0 = ast.unparse(ck.args[0]) if ck.args else ''
    blk0 = f.node.body
    src0 = astutil.unfold(ck.args[0], blk0, blk0[-1]) if ck.args else None
    t0 = ast.unparse(src0).replace(' ', '') if src0 is not None else ''
    is_neg = ('==-1' in t0 or '<0' in t0 or '!=1' in t0)
    is_pos = ('==1' in t0 or '>0' in t0 or '!=-1' in t0)
    neg = is_neg and not is_pos
    okf = fn_ in ('self._fD',) and neg
    rep.add(R, key + 'obj', 'derived' if okf else (
        'refuted' if fn_ in ('self._fS1', 'self._fD1', 'self._fS') or (
            is_pos and not is_neg) else 'unknown'), site(f, ck),
        '' if okf else 'the compared objective is %s(%s, .), documented '
        'fD(dissimilar pairs, .)' % (fn_, a0))
  # ascent step and fallback
  # (updates of A inside the alternating-projection loop - the loop that
  # contains the eigen-decomposition - are projection steps, not ascent
  # steps: they belong to the budget-projection rule)
  proj_loops = [w_ for w_ in ast.walk(f.node)
                if isinstance(w_, (ast.While, ast.For)) and
                not any(isinstance(c_, ast.Call) and
                        ast.unparse(c_.func).endswith('_grad_projection')
                        for c_ in ast.walk(w_)) and any(isinstance(c_, ast.Call) and
                        ast.unparse(c_.func).endswith('eigh')
                        for c_ in ast.walk(w_))]
  in_proj = set(id(x) for w_ in proj_loops for x in ast.walk(w_))
  ups = [n for n in ast.walk(f.node) if isinstance(n, ast.AugAssign) and
         ast.unparse(n.target) == 'A' and id(n) not in in_proj]
  for n in ups:
    ok = isinstance(n.op, ast.Add) and ast.unparse(n.value) in (
        'alpha * M', 'M * alpha')
    rep.add(R, key + 'ascent-step', 'derived' if ok else 'refuted',
            site(f, n), '' if ok else 'the step is %s, documented '
            'A += alpha * M' % ast.unparse(n))
  fb = [n for n in ast.walk(f.node) if isinstance(n, ast.Assign) and
        ast.unparse(n.targets[0]) == 'A[:]' and
        'A_old' in ast.unparse(n.value)]
  for n in fb:
    ok = ast.unparse(n.value) in ('A_old + alpha * M', 'alpha * M + A_old',
                                  'A_old + M * alpha')
    rep.add(R, key + 'fallback-step', 'derived' if ok else 'refuted',
            site(f, n), '' if ok else 'the fallback is %s, documented '
            'A_old + alpha * M' % ast.unparse(n.value))
  # step sizes stay positive: alpha starts positive and is only scaled by
  # positive constants
  al = [n for n in ast.walk(f.node)
        if isinstance(n, (ast.Assign, ast.AugAssign)) and
        ast.unparse(n.targets[0] if isinstance(n, ast.Assign)
                    else n.target) == 'alpha']
  okp = bool(al)
  for n in al:
    v = n.value
    pos = isinstance(v, ast.Constant) and isinstance(v.value, (int, float)) \
        and v.value > 0
    if isinstance(n, ast.AugAssign):
      pos = pos and isinstance(n.op, (ast.Mult, ast.Div))
    okp = okp and pos
  rep.add(R, key + 'alpha-positive', 'derived' if okp else 'unknown',
          site(f), '' if okp else 'step size not a positive constant scaled '
          'by positive constants')
  # direction: inside the loop M projects the gradient of fD (dissimilar
  # pairs) orthogonally to the gradient of fS (similar pairs)
  loops = [n for n in ast.walk(f.node) if isinstance(n, ast.For)]
  inl = [n for lp in loops for n in ast.walk(lp)
         if isinstance(n, ast.Assign) and ast.unparse(n.targets[0]) == 'M']
  for n in inl:
    un = astutil.unfold(n.value, astutil.parents(f.node).get(n).body, n)
    txt = ast.unparse(un)
    # the similarity gradient does not depend on A: it may be hoisted
    import re as _re
    if 'self._fS1' not in txt:
      # a name defined before the loop: unfold it from the function body
      un2 = astutil.unfold(un, f.node.body, f.node.body[-1],
                           stop=('pos_pairs', 'neg_pairs', 'A', 'A_old',
                                 'pairs', 'y'))
      txt = ast.unparse(un2)
    txt = _re.sub(r'self\._fS1\(pos_pairs, \w+\)', 'self._fS1(pos_pairs, A)',
                  txt)
    ok = txt == 'self._grad_projection(self._fD1(neg_pairs, A), ' \
        'self._fS1(pos_pairs, A))'
    bad = txt == 'self._grad_projection(self._fS1(pos_pairs, A), ' \
        'self._fD1(neg_pairs, A))'
    rep.add(R, key + 'direction', 'derived' if ok else 'refuted' if bad
            else 'unknown', site(f, n), '' if ok else 'direction is %s, '
            'documented _grad_projection(fD1(dissimilar), fS1(similar))'
            % txt)


def rule_full(repo, rep):
  R = 'R-DOM:mmc-returns-projected-feasible-iterate'
  rep.rule(R, 'self.A_[:] = A_old; A_old is written only as a copy of the '
           'initial matrix and by A_old[:] = A under `satisfy and ...`; '
           'satisfy = True only under error2 < eps directly after the PSD '
           'clip V Diag(max(0, l)) V^T of eigh((A + A^T)/2), with no write '
           'to A in between')
  f0, f, roles_ = _full_view(repo)
  rep.analysed(f0)
  if f is None:
    rep.unknown(R, 'mmc._BaseMMC._fit_full', site(f0), 'roles %s cannot be '
                'given canonical names' % roles_)
    return
  fin = [n for n in ast.walk(f.node) if isinstance(n, ast.Assign) and
         ast.unparse(n.targets[0]) in ('self.A_[:]', 'self.A_')]
  if not fin or not isinstance(fin[-1].value, ast.Name):
    rep.unknown(R, 'mmc._BaseMMC._fit_full:result', site(f), 'final store '
                'of A_ not recognised')
    return
  old = fin[-1].value.id
  rep.derived(R, 'mmc._BaseMMC._fit_full:result', site(f, fin[-1]))
  # writers of A_old
  for w in _writes(f.node, old):
    txt = ast.unparse(w)
    if isinstance(w, ast.Assign) and isinstance(w.targets[0], ast.Name):
      ok = isinstance(w.value, ast.Call) and isinstance(
          w.value.func, ast.Attribute) and w.value.func.attr == 'copy'
      rep.add(R, 'mmc._BaseMMC._fit_full:%s-init' % old,
              'derived' if ok else 'refuted', site(f, w),
              '' if ok else '%s is bound by %s (not a copy)' % (old, txt))
      continue
    conds = astutil.path_condition(f.node, w)
    ok = 'satisfy' in conds
    rep.add(R, 'mmc._BaseMMC._fit_full:%s-update' % old,
            'derived' if ok else 'refuted', site(f, w),
            '' if ok else '%s is updated by %s without `satisfy`'
            % (old, txt))
  # within one cycle the acceptance test never sees the flag of an earlier
  # cycle: forward flow of the flag from the start of the cycle body
  pm_ = astutil.parents(f.node)
  cyc = [n for n in ast.walk(f.node) if isinstance(n, ast.For) and
         any(isinstance(x, ast.Assign) and
             ast.unparse(x.targets[0]) == '%s[:]' % old
             for x in ast.walk(n))]
  outer = None
  for c_ in cyc:
    if outer is None or c_.lineno < outer.lineno:
      outer = c_
  uses = [n for n in ast.walk(outer) if isinstance(n, ast.If) and
          any(isinstance(x, ast.Name) and x.id == 'satisfy'
              for x in ast.walk(n.test))] if outer is not None else []
  if outer is None or not uses:
    rep.unknown(R, 'mmc._BaseMMC._fit_full:satisfy-reset', site(f),
                'cycle loop / acceptance test not found')
  else:
    _n, _b, _c, reach = astutil.flag_states(outer.body, 'satisfy', {'stale'})
    stale = [u for u in uses if 'stale' in reach.get(id(u), {'stale'})]
    rep.add(R, 'mmc._BaseMMC._fit_full:satisfy-reset', 'refuted' if stale
            else 'derived', site(f, (stale or uses)[0]),
            'the acceptance test can see the value satisfy had in an earlier '
            'cycle: a projection that ran out of max_proj steps is still '
            'accepted as feasible' if stale else '')
  # satisfy = True
  sats = [n for n in ast.walk(f.node) if isinstance(n, ast.Assign) and
          ast.unparse(n.targets[0]) == 'satisfy' and
          isinstance(n.value, ast.Constant) and n.value.value is True]
  if not sats:
    rep.unknown(R, 'mmc._BaseMMC._fit_full:satisfy', site(f),
                'no `satisfy = True`')
  Aname = None
  for n in ast.walk(f.node):
    if isinstance(n, ast.Assign) and isinstance(n.targets[0], ast.Name) and \
            ast.unparse(n.value) == 'self.A_':
      Aname = n.targets[0].id
  # the projection tolerance itself: the documented 1%, a fixed constant
  ed = [v for (n, v) in guards.assignments(f.node, 'eps') if v is not None]
  if len(ed) == 1 and isinstance(ed[0], ast.Constant) and \
          isinstance(ed[0].value, (int, float)):
    okc = 0 < ed[0].value <= 0.01
    rep.add(R, 'mmc._BaseMMC._fit_full:projection-tolerance', 'derived' if okc
            else 'refuted', site(f), '' if okc else 'the relative violation '
            'accepted as feasible is %r, documented 1%%' % ed[0].value)
  elif ed and any(isinstance(x, ast.Attribute) and
                  isinstance(x.value, ast.Name) and x.value.id == 'self'
                  for v in ed for x in ast.walk(v)):
    rep.refuted(R, 'mmc._BaseMMC._fit_full:projection-tolerance', site(f),
                'the relative violation accepted as feasible is %s: it moves '
                'with a hyper-parameter, documented: a fixed 1%%'
                % ' / '.join(ast.unparse(v) for v in ed))
  else:
    rep.unknown(R, 'mmc._BaseMMC._fit_full:projection-tolerance', site(f),
                'tolerance %s not recognised'
                % [ast.unparse(v) for v in ed])
  for s in sats:
    cmps = guards.path_cmps(f.node, s)
    ok = any(isinstance(c, Cmp) and c == Cmp(Lin({('n', 'error2'): 1,
                                                  ('n', 'eps'): -1}), '<')
             for c in cmps)
    rep.add(R, 'mmc._BaseMMC._fit_full:satisfy-test', 'derived' if ok else
            'refuted', site(f, s), '' if ok else 'satisfy = True under %s, '
            'documented error2 < eps' % (cmps,))
    # PSD clip is the last write to A before the test
    ifn = [p for (p, ch) in astutil.enclosing(f.node, s, ast.If)][0]
    blk = astutil.parents(f.node).get(ifn)
    body = getattr(blk, 'body', [])
    pre = body[:body.index(ifn)] if ifn in body else []
    wr = [x for x in pre if Aname and x in _writes(f.node, Aname)]
    if not wr:
      rep.refuted(R, 'mmc._BaseMMC._fit_full:psd-clip', site(f, ifn),
                  'no projection precedes the feasibility test')
      continue
    last = wr[-1]
    form_ok, detail = _clip_form(repo, f, body, last)
    rep.add(R, 'mmc._BaseMMC._fit_full:psd-clip', form_ok, site(f, last),
            detail)


def _clip_form(repo, f, body, stmt):
  """Is `stmt` A[:] = V Diag(max(0, l)) V^T with (l, V) = eigh(sym(A))?"""
  i = body.index(stmt)
  prev = body[i - 1] if i > 0 else None
  if not (isinstance(prev, ast.Assign) and
          isinstance(prev.targets[0], ast.Tuple) and
          len(prev.targets[0].elts) == 2 and 'eigh' in ast.unparse(prev.value)):
    return 'unknown', 'eigh statement not adjacent to the last write of A'
  ln, vn = [e.id for e in prev.targets[0].elts]
  Poly.ORTHO.clear()
  dom = AlgDomain()
  eng = Engine(repo, dom)
  st = State({}, dom.aux_init())
  wv = dom.x_numpy_linalg_eigh([V(Poly.sym('S', 'mat', symmetric=True))], {},
                               stmt, st)
  st.vars[ln], st.vars[vn] = wv.elts
  eng.stack.append(f)
  val = eng.eval(stmt.value, st, f)
  eng.stack.pop()
  Vp = Poly({(A('V(S)', 'mat'),): Fraction(1)}, 'mat')
  want = Vp.mul(Poly.diag(SExpr.base(('max0', SExpr.base(('w', 'w(S)')).key()))),
                'mat').mul(Vp.transpose(), 'mat')
  if val.d is UNKNOWN:
    return 'unknown', 'projection form not derivable'
  if val.d == want:
    return 'derived', ''
  return 'refuted', 'projection is %r, documented %r' % (val.d, want)


def rule_projection_formula(repo, rep):
  R = 'R-FORM:mmc-budget-projection'
  rep.rule(R, 'the projection onto {w.x <= t} is x0 when w.x0 <= t and '
           'x0 + (t1 - w1.x0) w1 otherwise, with w1 = w / |w|, t1 = t / |w|; '
           'the relative violation is (w.A - t) / t')
  from ..ratfunc import Rat, LinM, eval_expr
  f0, f, roles_ = _full_view(repo)
  if f is None:
    rep.unknown(R, 'mmc._BaseMMC._fit_full', site(f0), 'roles %s cannot be '
                'given canonical names' % roles_)
    return
  defs = {}
  for n in ast.walk(f.node):
    if isinstance(n, ast.Assign) and isinstance(n.targets[0], ast.Name):
      defs.setdefault(n.targets[0].id, []).append(n)
  checks = []
  # the value of the budget constraint at the projected matrix, named or
  # written in place
  FD = ('w.dot(A.ravel())', 'A.ravel().dot(w)', 'np.sum(w * A.ravel())')
  scal = {'t': 't', 'w_norm': 'nw', 't1': 't1', 'w1.dot(x0)': 'd',
          'fDC2': 'f'}
  for fd_ in FD:
    scal[fd_] = 'f'
  atoms = {'w': 'w', 'x0': 'x0', 'w1': 'w1'}
  one = Rat.const(1)
  t_, nw, t1, d_, f_ = (Rat.sym(x) for x in ('t', 'nw', 't1', 'd', 'f'))
  want = {'w1': LinM.atom('w').scale(one / nw), 't1': t_ / nw,
          'error2': (f_ - t_) / t_}
  for name, w_ in want.items():
    if name not in defs:
      rep.unknown(R, 'mmc._BaseMMC._fit_full:' + name, site(f),
                  '%s not found' % name)
      continue
    node = defs[name][-1]
    v = eval_expr(node.value, scal, atoms)
    if v is None or type(v) is not type(w_):
      rep.unknown(R, 'mmc._BaseMMC._fit_full:' + name, site(f, node),
                  '%s = %s not derivable' % (name, ast.unparse(node.value)))
    else:
      rep.add(R, 'mmc._BaseMMC._fit_full:' + name, 'derived' if v == w_
              else 'refuted', site(f, node), '' if v == w_ else
              '%s is %r, documented %r' % (name, v, w_))
  nd = defs.get('w_norm', [])
  okn = nd and ast.unparse(nd[-1].value) in ('np.linalg.norm(w)',
                                             'np.sqrt(w.dot(w))',
                                             'np.sqrt(np.sum(w ** 2))')
  rep.add(R, 'mmc._BaseMMC._fit_full:w_norm', 'derived' if okn else 'unknown',
          site(f), '' if okn else 'w_norm not recognised')
  # the write-back of the projected point: A[:] = <E>.reshape(...) happens
  # only when the budget is exceeded, with E = x0 + (t1 - w1.x0) w1
  w_ = LinM.atom('x0') + LinM.atom('w1').scale(t1 - d_)
  viol = ('t < w.dot(x0)', 'w.dot(x0) > t')
  feas = ('t >= w.dot(x0)', 'w.dot(x0) <= t')
  wrs = [n for n in ast.walk(f.node) if isinstance(n, ast.Assign) and
         ast.unparse(n.targets[0]) == 'A[:]' and
         isinstance(n.value, ast.Call) and
         isinstance(n.value.func, ast.Attribute) and
         n.value.func.attr == 'reshape']
  if len(wrs) != 1:
    rep.unknown(R, 'mmc._BaseMMC._fit_full:x', site(f), 'projection '
                'statements not recognised (%d write-backs)' % len(wrs))
  else:
    wr = wrs[0]
    E = wr.value.func.value
    conds = astutil.path_condition(f.node, wr)
    if isinstance(E, ast.Name):
      ds = [n for n in defs.get(E.id, [])
            if ast.unparse(n.value) != 'x0']
      keep = [n for n in defs.get(E.id, []) if ast.unparse(n.value) == 'x0']
      for k_ in keep:
        kc = astutil.path_condition(f.node, k_)
        okc = any(c in kc for c in feas)
        rep.add(R, 'mmc._BaseMMC._fit_full:feasible-kept', 'derived' if okc
                else 'refuted', site(f, k_), '' if okc else '%s = x0 is kept '
                'under %s, documented w.x0 <= t' % (E.id, kc))
      Eexpr = ds[0].value if len(ds) == 1 else None
      conds = conds + (astutil.path_condition(f.node, ds[0])
                       if len(ds) == 1 else [])
    else:
      Eexpr = E
    v = eval_expr(Eexpr, scal, atoms) if Eexpr is not None else None
    rep.add(R, 'mmc._BaseMMC._fit_full:x', 'derived' if v == w_ else
            'refuted' if v is not None else 'unknown', site(f, wr),
            '' if v == w_ else 'projection is %r, documented %r' % (v, w_))
    okv = any(c in conds for c in viol)
    rep.add(R, 'mmc._BaseMMC._fit_full:projected-when-violated', 'derived'
            if okv else 'refuted', site(f, wr), '' if okv else 'the projected '
            'point is written back under %s, documented: when w.x0 > t'
            % conds)
  fd = defs.get('fDC2', [])
  er = defs.get('error2', [])
  okf = (fd and ast.unparse(fd[-1].value) in FD) or \
      (not fd and er and any(x in ast.unparse(er[-1].value) for x in FD))
  rep.add(R, 'mmc._BaseMMC._fit_full:fDC2', 'derived' if okf else 'unknown',
          site(f), '' if okf else 'constraint value not recognised')


def rule_init_flow(repo, rep):
  R = 'R-FLOW:mmc-starts-from-init'
  rep.rule(R, 'A aliases self.A_ = _initialize_metric_mahalanobis(pairs, '
           'self.init, ...); the budget t is computed from that A (one '
           'hundredth of w.A) before any update of A')
  f0 = repo.get_func('mmc._BaseMMC._fit')
  _f0, f, roles_ = _full_view(repo)
  if f is None:
    rep.unknown(R, 'mmc._BaseMMC._fit_full', site(_f0), 'roles %s cannot be '
                'given canonical names' % roles_)
    return
  rep.analysed(f0)
  ini = [n for n in ast.walk(f0.node) if isinstance(n, ast.Assign) and
         ast.unparse(n.targets[0]) == 'self.A_']
  ok = bool(ini) and isinstance(ini[0].value, ast.Call) and \
      (repo.dotted(f0.module, ini[0].value.func) or '').endswith(
          '_initialize_metric_mahalanobis') and len(ini[0].value.args) >= 2 \
      and ast.unparse(ini[0].value.args[1]) == 'self.init'
  rep.add(R, 'mmc._BaseMMC._fit:A_', 'derived' if ok else 'refuted',
          site(f0), '' if ok else 'self.A_ is not initialised from self.init')
  Aname = None
  for n in ast.walk(f.node):
    if isinstance(n, ast.Assign) and isinstance(n.targets[0], ast.Name) and \
            ast.unparse(n.value) == 'self.A_':
      Aname = n.targets[0].id
  tdef = [n for (n, v) in guards.assignments(f.node, 't')]
  if Aname is None or not tdef:
    rep.unknown(R, 'mmc._BaseMMC._fit_full:budget', site(f), 'A / t not '
                'recognised')
    return
  t = tdef[0]
  txt = ast.unparse(t.value)
  first_w = [w for w in _writes(f.node, Aname)
             if not (isinstance(w, ast.Assign) and
                     isinstance(w.targets[0], ast.Name))]
  uses_A = Aname in [x.id for x in ast.walk(t.value)
                     if isinstance(x, ast.Name)]
  hundredth = txt.endswith('/ 100.0') or txt.endswith('/ 100') or \
      '* 0.01' in txt
  # the quantity divided: sum over similar pairs of d^T A d  (= w . vec(A))
  num = t.value.left if isinstance(t.value, ast.BinOp) else t.value
  ntxt = ast.unparse(num)
  forms = {'w.dot(%s.ravel())' % Aname, 'np.dot(w, %s.ravel())' % Aname,
           '%s.ravel().dot(w)' % Aname,
           "np.einsum('ij,jk,ik', pos_diff, %s, pos_diff)" % Aname,
           "np.einsum('ij,jk,ik->', pos_diff, %s, pos_diff)" % Aname,
           'np.sum(pos_diff.dot(%s) * pos_diff)' % Aname}
  wdef = [v for (n_, v) in guards.assignments(f.node, 'w') if v is not None]
  w_ok = wdef and ast.unparse(wdef[0]) in (
      "np.einsum('ij,ik->jk', pos_diff, pos_diff).ravel()",
      'pos_diff.T.dot(pos_diff).ravel()',
      'np.dot(pos_diff.T, pos_diff).ravel()')
  if ntxt in forms and (w_ok or 'w' not in ntxt.split('(')[0:1] + [ntxt[:2]]):
    rep.derived(R, 'mmc._BaseMMC._fit_full:budget-form', site(f, t))
  elif isinstance(num, ast.Call) and ast.unparse(num.func).endswith(
          'einsum') and num.args and isinstance(num.args[0], ast.Constant):
    ops = str(num.args[0].value).split('->')[0].split(',')
    diag = [o for o in ops if len(set(o)) < len(o)]
    if diag:
      rep.refuted(R, 'mmc._BaseMMC._fit_full:budget-form', site(f, t),
                  'the budget uses einsum %r: operand %r takes only a '
                  'diagonal, so off-diagonal entries of the initial matrix '
                  'are ignored' % (num.args[0].value, diag[0]))
    else:
      rep.unknown(R, 'mmc._BaseMMC._fit_full:budget-form', site(f, t),
                  'budget expression %s not recognised' % ntxt)
  else:
    rep.unknown(R, 'mmc._BaseMMC._fit_full:budget-form', site(f, t),
                'budget expression %s not recognised' % ntxt)
  before = not first_w or t.lineno < first_w[0].lineno
  ok = uses_A and hundredth and before
  rep.add(R, 'mmc._BaseMMC._fit_full:budget', 'derived' if ok else 'refuted',
          site(f, t), '' if ok else 'budget is %s (uses initial A: %s, one '
          'hundredth: %s, before first update: %s)' % (txt, uses_A,
                                                       hundredth, before))


def rule_diag(repo, rep):
  R = 'SIGN:mmc-diagonal-nonnegative'
  rep.rule(R, 'in _fit_diag every candidate w_tmp is np.maximum(0, .), w is '
           'only the (copied) diagonal of the initial matrix or a stored '
           'candidate, and A_ = diag(w)')
  Rn = 'R-DOM:mmc-diagonal-nan-guard'
  rep.rule(Rn, 'every evaluation of the objective is followed by '
           'assert_all_finite(obj) before obj is compared or stored')
  fd0 = astutil.inline_helpers(repo, repo.get_func('mmc._BaseMMC._fit_diag'))
  rep.analysed(getattr(fd0, 'orig', fd0))
  # role: obj = the local holding the objective (built from _D_objective)
  droles = {}
  for n in ast.walk(fd0.node):
    if isinstance(n, ast.Assign) and isinstance(n.targets[0], ast.Name) and \
            any(isinstance(c_, ast.Call) and
                ast.unparse(c_.func) == 'self._D_objective'
                for c_ in ast.walk(n.value)):
      droles[n.targets[0].id] = 'obj'
  f = astutil.role_view(fd0, droles)
  if f is None:
    rep.unknown(R, 'mmc._BaseMMC._fit_diag', site(fd0), 'roles %s cannot be '
                'given canonical names' % droles)
    return
  fin = [n for n in ast.walk(f.node) if isinstance(n, ast.Assign) and
         ast.unparse(n.targets[0]) == 'self.A_']
  if not fin or not (isinstance(fin[-1].value, ast.Call) and
                     ast.unparse(fin[-1].value.func) in ('np.diag',
                                                         'numpy.diag')):
    rep.refuted(R, 'mmc._BaseMMC._fit_diag:result', site(f), 'A_ is not '
                'diag(w)')
    return
  w = ast.unparse(fin[-1].value.args[0])
  srcs = set()
  for wr in _writes(f.node, w):
    v = wr.value
    txt = ast.unparse(v)
    if txt in ('np.diag(self.A_).copy()', 'np.diag(self.A_)'):
      rep.derived(R, 'mmc._BaseMMC._fit_diag:w-init', site(f, wr))
    elif isinstance(v, ast.Name):
      srcs.add(v.id)
    else:
      rep.refuted(R, 'mmc._BaseMMC._fit_diag:w', site(f, wr),
                  'w is written by %s' % ast.unparse(wr))
  # chase copies back to candidates
  cands = set()
  todo = list(srcs)
  seen = set()
  while todo:
    nm = todo.pop()
    if nm in seen:
      continue
    seen.add(nm)
    for (n, v) in guards.assignments(f.node, nm):
      if v is None:
        continue
      if isinstance(v, ast.Call) and isinstance(v.func, ast.Attribute) and \
              v.func.attr == 'copy' and isinstance(v.func.value, ast.Name):
        todo.append(v.func.value.id)
      elif isinstance(v, ast.Name):
        todo.append(v.id)
      else:
        cands.add((nm, n, v))
  if not cands:
    rep.unknown(R, 'mmc._BaseMMC._fit_diag:candidates', site(f),
                'no candidate definitions found')
  for (nm, n, v) in cands:
    s = guards.sign_of(v, {}, lambda e: repo.dotted(f.module, e))
    if s in (guards.NONNEG, guards.POS, guards.ZERO):
      rep.derived(R, 'mmc._BaseMMC._fit_diag:%s' % nm, site(f, n))
    else:
      rep.refuted(R, 'mmc._BaseMMC._fit_diag:%s' % nm, site(f, n),
                  'candidate %s = %s is not projected onto w >= 0'
                  % (nm, ast.unparse(v)))
  # NaN guard: every evaluation of the objective reaches assert_all_finite
  # (directly or through a plain alias) before the value is used otherwise
  pm = astutil.parents(f.node)
  objs = [n for n in ast.walk(f.node) if isinstance(n, ast.Assign) and
          isinstance(n.targets[0], ast.Name) and
          any(isinstance(c_, ast.Call) and
              ast.unparse(c_.func) == 'self._D_objective'
              for c_ in ast.walk(n.value))]
  for n in objs:
    blk = getattr(pm.get(n), 'body', [])
    after = blk[blk.index(n) + 1:] if n in blk else []
    alias = {n.targets[0].id}
    ok = False
    for s in after:
      if isinstance(s, ast.Expr) and isinstance(s.value, ast.Call) and \
              (repo.dotted(f.module, s.value.func) or '').endswith(
                  'assert_all_finite') and s.value.args and \
              ast.unparse(s.value.args[0]) in alias:
        ok = True
        break
      if isinstance(s, ast.Assign) and isinstance(s.targets[0], ast.Name) and \
              isinstance(s.value, ast.Name) and s.value.id in alias:
        alias.add(s.targets[0].id)
        continue
      reads = [x for x in ast.walk(s) if isinstance(x, ast.Name) and
               x.id in alias]
      if reads:
        break
    rep.add(Rn, 'mmc._BaseMMC._fit_diag:obj', 'derived' if ok else 'refuted',
            site(f, n), '' if ok else 'objective value is used without '
            'assert_all_finite')
  rep.floor('objective evaluations in _fit_diag', len(objs), 1)


def rule_no_write_through_ravel(repo, rep, modules=('mmc',)):
  R = 'R-EFFECT:no-update-through-a-flattened-alias'
  rep.rule(R, 'no array is updated in place through `x = A.ravel()` / '
           '`A.reshape(-1)` while A itself is read afterwards without a '
           'write-back `A[:] = ...`: ravel / reshape return a view only for '
           'contiguous memory; for a Fortran-ordered A (a user-supplied init, '
           'a transposed matrix) they copy and the update is lost - '
           'invisible to tests on C-ordered arrays')
  n = 0
  for f in repo.all_functions():
    if f.module.short not in modules:
      continue
    body = list(ast.walk(f.node))
    for a in body:
      if not (isinstance(a, ast.Assign) and len(a.targets) == 1 and
              isinstance(a.targets[0], ast.Name)):
        continue
      v = a.value
      base = None
      if isinstance(v, ast.Call) and isinstance(v.func, ast.Attribute) and \
              isinstance(v.func.value, ast.Name) and (
                  v.func.attr == 'ravel' or (
                      v.func.attr == 'reshape' and
                      [ast.unparse(x) for x in v.args] in (['-1'], ['(-1,)']))):
        base = v.func.value.id
      if base is None or base == a.targets[0].id:
        continue
      alias = a.targets[0].id
      n += 1
      after = [x for x in body if getattr(x, 'lineno', 0) > a.lineno]
      upd = [x for x in after if (
          isinstance(x, ast.AugAssign) and isinstance(x.target, ast.Name) and
          x.target.id == alias) or (
          isinstance(x, ast.Assign) and any(
              isinstance(t, ast.Subscript) and isinstance(t.value, ast.Name)
              and t.value.id == alias for t in x.targets)) or (
          isinstance(x, ast.AugAssign) and isinstance(
              x.target, ast.Subscript) and isinstance(
              x.target.value, ast.Name) and x.target.value.id == alias)]
      key = '%s:%s=%s' % (f.key, alias, ast.unparse(v))
      if not upd:
        rep.derived(R, key, site(f, a))
        continue
      u = upd[0]
      wb = [x for x in after if isinstance(x, ast.Assign) and any(
          isinstance(t, ast.Subscript) and isinstance(t.value, ast.Name) and
          t.value.id == base for t in x.targets) and
          x.lineno >= u.lineno and alias in [
              y.id for y in ast.walk(x.value) if isinstance(y, ast.Name)]]
      reads = [x for x in after if isinstance(x, ast.Name) and
               isinstance(x.ctx, ast.Load) and x.id == base and
               x.lineno > u.lineno]
      if wb or not reads:
        rep.derived(R, key, site(f, a))
      else:
        rep.refuted(R, key, site(f, u), '%s is updated in place (%s) as if '
                    'it were a view of %s, and %s is read afterwards without '
                    'a write-back: for a non-contiguous (Fortran-ordered) %s '
                    'the update is lost' % (alias, ast.unparse(u)[:50], base,
                                            base, base))
  rep.floor('flattened aliases examined', n, 1)


def check(repo, rep, tier):
  rule_full(repo, rep)
  rule_scheme(repo, rep)
  rule_projection_formula(repo, rep)
  rule_init_flow(repo, rep)
  rule_diag(repo, rep)
  rule_no_write_through_ravel(repo, rep)
  # the iterations start from the caller's init, which they must leave
  # untouched (FRESH rule of C17, MMC only)
  from . import c17 as _c17
  before = len(rep.obs)
  _c17.rule_writes(repo, rep)
  rep.obs[before:] = [o for o in rep.obs[before:]
                      if o['construct'].startswith(('MMC.fit',
                                                    'MMC_Supervised.fit'))]
  rep.floors = [fl for fl in rep.floors if 'in-place' not in fl[0]]
