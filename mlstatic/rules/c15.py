"""C15 - SCML: non-negative weights, M = B^T Diag(w) B, best checkpoint,
option paths, RNG, normalised LDA bases (equality with the documented
iterates NOT decided)."""
import ast
from fractions import Fraction
from ..model import FuncInfo, canon
from ..engine import Engine, V, State, NOCONST
from ..algdom import AlgDomain
from ..algebra import UNKNOWN, Poly, SExpr, Vec, Lin, Cmp, A
from .. import astutil, guards
from .common import site
from . import c03, c17
from .c20 import _gram_equals_M


def _fit_view(repo):
  """_BaseSCML._fit under canonical role names (discovered by definition and
  use): best_w = the weights handed to _components_from_basis_weights; w =
  what best_w is assigned; (obj, best_obj) = the pair compared where best_w
  is assigned; iter = the main loop variable; scale_f / avg_grad_w = the
  factors of w's update; ada_grad_w, delta = the names in scale_f's
  denominator (delta: bound to a constant); grad_w = the increment of the
  running average; dist_diff = result of _compute_dist_diff; rand_int / idx
  = the batch index table and its row; slack_val / slack_mask."""
  f0 = astutil.inline_helpers(repo, repo.get_func('scml._BaseSCML._fit'))
  roles = {}
  names = lambda e: [x.id for x in ast.walk(e) if isinstance(x, ast.Name)]
  fin = [n for n in ast.walk(f0.node) if isinstance(n, ast.Assign) and
         ast.unparse(n.targets[0]) == 'self.components_']
  if fin and isinstance(fin[-1].value, ast.Call) and \
          len(fin[-1].value.args) >= 2 and \
          isinstance(fin[-1].value.args[1], ast.Name):
    roles[fin[-1].value.args[1].id] = 'best_w'
  bw = next((k for k, v in roles.items() if v == 'best_w'), None)
  pm = astutil.parents(f0.node)
  for (n, v) in guards.assignments(f0.node, bw or '?'):
    if isinstance(v, ast.Name):
      roles[v.id] = 'w'
      blk = pm.get(n)
      if isinstance(blk, ast.If) and isinstance(blk.test, ast.Compare) and \
              isinstance(blk.test.left, ast.Name) and \
              isinstance(blk.test.comparators[0], ast.Name):
        a, b = blk.test.left.id, blk.test.comparators[0].id
        if isinstance(blk.test.ops[0], (ast.Gt, ast.GtE)):
          a, b = b, a
        roles[a], roles[b] = 'obj', 'best_obj'
  wn = next((k for k, v in roles.items() if v == 'w'), None)
  loops = [n for n in ast.walk(f0.node) if isinstance(n, ast.For) and
           ast.unparse(n.iter) == 'range(self.max_iter)' and
           isinstance(n.target, ast.Name)]
  if len(loops) == 1:
    roles[loops[0].target.id] = 'iter'
    it = loops[0].target.id
    body = loops[0].body
    for s_ in body:
      if isinstance(s_, ast.Assign) and isinstance(s_.targets[0], ast.Name) \
              and s_.targets[0].id == wn and isinstance(s_.value, ast.BinOp) \
              and isinstance(s_.value.op, ast.Mult):
        inline_scale = None
        for side in (s_.value.left, s_.value.right):
          if isinstance(side, ast.Name):
            roles[side.id] = 'scale_f'
          elif isinstance(side, ast.Call) and side.args and \
                  'minimum' in ast.unparse(side.func):
            nm = [x for x in names(side.args[0]) if x not in ('self', 'np')]
            if len(nm) == 1:
              roles[nm[0]] = 'avg_grad_w'
          else:
            inline_scale = side
        if inline_scale is not None:
          consts_ = set(n.targets[0].id for n in ast.walk(f0.node)
                        if isinstance(n, ast.Assign) and
                        isinstance(n.targets[0], ast.Name) and
                        isinstance(n.value, ast.Constant))
          for x in names(inline_scale):
            if x not in ('self', 'np', it):
              roles[x] = 'delta' if x in consts_ else 'ada_grad_w'
    sf = next((k for k, v in roles.items() if v == 'scale_f'), None)
    av = next((k for k, v in roles.items() if v == 'avg_grad_w'), None)
    consts = set(n.targets[0].id for n in ast.walk(f0.node)
                 if isinstance(n, ast.Assign) and
                 isinstance(n.targets[0], ast.Name) and
                 isinstance(n.value, ast.Constant))
    for s_ in body:
      if isinstance(s_, ast.Assign) and isinstance(s_.targets[0], ast.Name):
        t_ = s_.targets[0].id
        nm = [x for x in names(s_.value) if x not in ('self', 'np', it)]
        if t_ == sf:
          for x in nm:
            roles[x] = 'delta' if x in consts else 'ada_grad_w'
        elif t_ == av:
          for x in nm:
            if x != av:
              roles[x] = 'grad_w'
        elif isinstance(s_.value, ast.Subscript) and \
                ast.unparse(s_.value.slice) == it and \
                isinstance(s_.value.value, ast.Name):
          roles[t_] = 'idx'
          roles[s_.value.value.id] = 'rand_int'
  for n in ast.walk(f0.node):
    if isinstance(n, ast.Assign) and isinstance(n.targets[0], ast.Name) and \
            isinstance(n.value, ast.Call) and \
            ast.unparse(n.value.func) == 'self._compute_dist_diff':
      roles[n.targets[0].id] = 'dist_diff'
  dd = next((k for k, v in roles.items() if v == 'dist_diff'), None)
  if len(loops) == 1:
    for s_ in ast.walk(loops[0]):
      if isinstance(s_, ast.Assign) and isinstance(s_.targets[0], ast.Name):
        nm = names(s_.value)
        t_ = s_.targets[0].id
        if dd in nm and wn in nm and 'matmul' in ast.unparse(s_.value) or \
                (dd in nm and wn in nm and '.dot(' in ast.unparse(s_.value)):
          roles[t_] = 'slack_val'
    sv = next((k for k, v in roles.items() if v == 'slack_val'), None)
    for s_ in ast.walk(loops[0]):
      if isinstance(s_, ast.Assign) and isinstance(s_.targets[0], ast.Name) \
              and sv and any(isinstance(c_, ast.Compare) and
                             ast.unparse(c_.left) == sv
                             for c_ in ast.walk(s_.value)):
        roles[s_.targets[0].id] = 'slack_mask'
  return f0, astutil.role_view(f0, roles)


def _cbw_view(repo):
  """_components_from_basis_weights: active_idx = the index of the active
  weights (unpacked from `w > 0`); (n_basis, n_features) = basis.shape."""
  f0 = repo.get_func('scml._BaseSCML._components_from_basis_weights')
  roles = {}
  for n in ast.walk(f0.node):
    if isinstance(n, ast.Assign) and isinstance(n.targets[0], ast.Tuple) and \
            len(n.targets[0].elts) == 1 and \
            isinstance(n.targets[0].elts[0], ast.Name) and \
            isinstance(n.value, ast.Compare):
      roles[n.targets[0].elts[0].id] = 'active_idx'
  return f0, astutil.role_view(f0, roles)


def rule_weights_nonneg(repo, rep):
  R = 'SIGN:scml-weights-nonnegative'
  rep.rule(R, 'every assignment to the weight vector in _BaseSCML._fit has a '
           'non-negative sign under gamma > 0: scale_f = -(iter+1) / (gamma * '
           '(delta + ada)) is negative (delta > 0, ada = sqrt(.) >= 0) and is '
           'multiplied by np.minimum(., 0) <= 0')
  rep.assume('SCML hyper-parameter range from the property: gamma > 0, '
             'max_iter >= output_iter >= 1')
  f0, f = _fit_view(repo)
  rep.analysed(f0)
  fin = [n for n in ast.walk(f.node) if isinstance(n, ast.Assign) and
         ast.unparse(n.targets[0]) == 'self.components_']
  if not fin or not isinstance(fin[-1].value, ast.Call) or \
          len(fin[-1].value.args) < 2:
    rep.unknown(R, 'scml._BaseSCML._fit', site(f), 'final store not found')
    return
  best = ast.unparse(fin[-1].value.args[1])
  bdefs = [v for (n, v) in guards.assignments(f.node, best) if v is not None]
  wnames = set(v.id for v in bdefs if isinstance(v, ast.Name))
  if len(wnames) != 1:
    rep.unknown(R, 'scml._BaseSCML._fit', site(f), 'weight variable not '
                'identified')
    return
  w = wnames.pop()
  env = {'iter': guards.NONNEG, 'self.gamma': guards.POS,
         'self.beta': guards.TOP, 'self.batch_size': guards.POS}
  # straight-line sign environment of the loop body, in statement order
  order = sorted((n for n in ast.walk(f.node) if isinstance(n, ast.Assign)
                  and isinstance(n.targets[0], ast.Name)),
                 key=lambda n: n.lineno)
  dot = lambda e: repo.dotted(f.module, e)
  for _ in range(2):
    for n in order:
      nm = n.targets[0].id
      s = guards.sign_of(n.value, env, dot)
      if nm in env and env[nm] != s and _ == 0 and nm != w:
        # loop-carried: join
        if {env[nm], s} <= {guards.ZERO, guards.NONNEG, guards.POS}:
          s = guards.NONNEG
        elif {env[nm], s} <= {guards.ZERO, guards.NONPOS, guards.NEG}:
          s = guards.NONPOS
        else:
          s = guards.TOP
      env[nm] = s
  nw = 0
  for (n, v) in guards.assignments(f.node, w):
    if v is None:
      rep.refuted(R, 'scml._BaseSCML._fit:%s' % w, site(f, n), 'weights are '
                  'updated in place: %s' % ast.unparse(n))
      continue
    nw += 1
    s = guards.sign_of(v, env, dot)
    if s in (guards.NONNEG, guards.POS, guards.ZERO):
      rep.derived(R, 'scml._BaseSCML._fit:%s@%d' % (w, nw), site(f, n),
                  sample=dict(rule=R, assignment=ast.unparse(n), sign=s))
    elif s == guards.TOP:
      rep.unknown(R, 'scml._BaseSCML._fit:%s@%d' % (w, nw), site(f, n),
                  'sign of %s not derivable' % ast.unparse(v))
    else:
      rep.refuted(R, 'scml._BaseSCML._fit:%s@%d' % (w, nw), site(f, n),
                  'weights assigned %s, whose sign is %s' % (ast.unparse(v),
                                                             s))
  # the checkpoint keeps the weights object itself (best_w = w): that object
  # must never be written in place afterwards
  Ra = 'FRESH:scml-checkpoint-not-overwritten'
  rep.rule(Ra, 'the weight vector is rebound to a fresh array at every '
           'iteration (never updated through out=, an augmented assignment '
           'or a subscript store), or the checkpoint stores a copy: the kept '
           'weights are those of the checkpoint')
  copies = all(isinstance(v, ast.Call) and isinstance(v.func, ast.Attribute)
               and v.func.attr == 'copy' or
               (isinstance(v, ast.Call) and canon(repo.dotted(
                   f.module, v.func) or '') in (canon('numpy.array'),
                                                canon('numpy.copy')))
               for v in bdefs) if bdefs else False
  inplace = []
  for n in ast.walk(f.node):
    if isinstance(n, ast.Call):
      for k in n.keywords:
        if k.arg == 'out' and ast.unparse(k.value) == w:
          inplace.append(n)
    if isinstance(n, ast.AugAssign) and ast.unparse(n.target) == w:
      inplace.append(n)
    if isinstance(n, (ast.Assign, ast.AugAssign)):
      tg = n.targets[0] if isinstance(n, ast.Assign) else n.target
      if isinstance(tg, ast.Subscript) and ast.unparse(tg.value) == w:
        inplace.append(n)
  if inplace and not copies:
    rep.refuted(Ra, 'scml._BaseSCML._fit:%s' % w, site(f, inplace[0]),
                '%s is written in place by %s while %s = %s keeps a '
                'reference to the same array: later iterations overwrite '
                'the checkpoint' % (w, ast.unparse(inplace[0]), best, w))
  else:
    rep.derived(Ra, 'scml._BaseSCML._fit:%s' % w, site(f))
  rep.floor('assignments to the SCML weight vector', nw + len(inplace), 2)
  # best checkpoint
  Rg = 'R-GUARD:scml-best-checkpoint'
  rep.rule(Rg, 'best_w is assigned only under obj < best_obj together with '
           'best_obj; components_ is built from best_w')
  for (n, v) in guards.assignments(f.node, best):
    if v is None:
      continue
    cmps = guards.path_cmps(f.node, n)
    want = Cmp(Lin({('n', 'obj'): 1, ('n', 'best_obj'): -1}), '<')
    blk = getattr(astutil.parents(f.node).get(n), 'body', [])
    together = any(t_ == 'best_obj' and ast.unparse(v_) == 'obj'
                   for s in blk for (t_, v_) in astutil.assign_pairs(s))
    if want in cmps and together:
      rep.derived(Rg, 'scml._BaseSCML._fit:%s' % best, site(f, n))
    elif Cmp(Lin({('n', 'obj'): 1, ('n', 'best_obj'): -1}), '>') in cmps:
      rep.refuted(Rg, 'scml._BaseSCML._fit:%s' % best, site(f, n),
                  'the checkpoint with the LARGER objective is kept')
    else:
      rep.refuted(Rg, 'scml._BaseSCML._fit:%s' % best, site(f, n),
                  '%s assigned under %s (best_obj updated together: %s)'
                  % (best, cmps, together))


def rule_components_form(repo, rep):
  R = 'R-FORM:scml-M-is-Bt-diag-w-B'
  rep.rule(R, 'both branches of _components_from_basis_weights give L with '
           'L^T L = B^T Diag(w) B over the active rows (low-rank: '
           'L = Diag(sqrt(w)) B with a warning; full rank: '
           'components_from_metric(B^T Diag(w) B))')
  f0, f = _cbw_view(repo)
  rep.analysed(f0)
  c = repo.get_class('SCML')
  Poly.ORTHO.clear()
  dom = AlgDomain()
  seen_arg = []
  orig = dom.summaries.copy()

  def cfm(args, kwargs):
    seen_arg.append(args[0].d)
    return V(Poly.sym('cfm', 'mat'), origin=('cfm',))
  dom.summaries['_util.components_from_metric'] = cfm
  eng = Engine(repo, dom, self_cls=c)
  wv = V(Vec(SExpr.base(('w', 'w')), 'row'))
  Bv = V(Poly.sym('B', 'mat'))
  flow = eng.run(f, args={'basis': Bv, 'w': wv})
  Bact = Poly({(('s', 'B|active_idx@0', False, 'mat', False),): Fraction(1)},
              'mat')
  wact = SExpr.base(('w', 'w|active_idx'))
  wantM = Bact.transpose().mul(Poly.diag(wact), 'mat').mul(Bact, 'mat')
  n = 0
  for (v, st, node) in flow.returns:
    n += 1
    if v.origin == ('cfm',):
      arg = seen_arg[-1] if seen_arg else UNKNOWN
      key = 'scml._BaseSCML._components_from_basis_weights:full-rank'
      if arg is UNKNOWN:
        rep.unknown(R, key, site(f, node), 'argument of '
                    'components_from_metric not derivable')
      elif arg == wantM:
        rep.derived(R, key, site(f, node),
                    sample=dict(rule=R, branch='full rank', M=repr(arg)))
      else:
        rep.refuted(R, key, site(f, node), 'components_from_metric receives '
                    '%r, documented %r' % (arg, wantM))
      continue
    key = 'scml._BaseSCML._components_from_basis_weights:low-rank'
    d = v.d
    if not isinstance(d, Poly):
      rep.unknown(R, key, site(f, node), 'returned form not derivable')
      continue
    G = d.transpose().mul(d, 'mat')
    if G == wantM:
      warned = ('warn', 'UserWarning') in dom.must(st)
      if warned:
        rep.derived(R, key, site(f, node),
                    sample=dict(rule=R, branch='low rank', L=repr(d)))
      else:
        rep.refuted(R, key, site(f, node), 'the low-rank branch does not '
                    'warn about the reduced dimension')
    else:
      rep.refuted(R, key, site(f, node), 'L = %r gives L^T L = %r, '
                  'documented %r' % (d, G, wantM))
  rep.floor('return paths of _components_from_basis_weights', n, 2)


def rule_low_rank_condition(repo, rep):
  R = 'R-GUARD:scml-low-rank-branch'
  rep.rule(R, 'the branch returning one row per active basis runs exactly '
           'when there are fewer active bases than features (n_basis < '
           'n_features with n_basis, n_features = basis.shape of the active '
           'rows): components_ never has more rows than features')
  _f0, f = _cbw_view(repo)
  shp = [n for n in ast.walk(f.node) if isinstance(n, ast.Assign) and
         isinstance(n.value, ast.Attribute) and n.value.attr == 'shape' and
         isinstance(n.targets[0], ast.Tuple) and len(n.targets[0].elts) == 2
         and all(isinstance(e, ast.Name) for e in n.targets[0].elts)]
  paths = astutil.return_paths(f.node.body, {})
  low = [(r, c) for (r, c) in paths if r is not None and
         'components_from_metric' not in ast.unparse(r.value)]
  if len(shp) != 1 or len(low) != 1:
    rep.unknown(R, 'scml._BaseSCML._components_from_basis_weights', site(f),
                'shape unpacking / low-rank return not recognised')
    return
  nb, nf = [e.id for e in shp[0].targets[0].elts]
  want = guards.cmp_of(ast.parse('%s < %s' % (nb, nf), mode='eval').body)
  got = []
  for (t, pol) in low[0][1]:
    try:
      got.append(guards.cmp_of(ast.parse(t, mode='eval').body, None, pol))
    except SyntaxError:
      got.append(None)
  if got == [want]:
    rep.derived(R, 'scml._BaseSCML._components_from_basis_weights',
                site(f, low[0][0]))
  elif None in got or not got:
    rep.unknown(R, 'scml._BaseSCML._components_from_basis_weights',
                site(f, low[0][0]), 'condition %s of the low-rank return not '
                'a single comparison' % low[0][1])
  else:
    rep.refuted(R, 'scml._BaseSCML._components_from_basis_weights',
                site(f, low[0][0]), 'the one-row-per-basis transformation is '
                'returned under %s, documented %s < %s: with that many '
                'active bases components_ has more rows than features'
                % (low[0][1], nb, nf))


def rule_lda_normalised(repo, rep):
  R = 'R-FLOW:scml-lda-bases-normalised'
  rep.rule(R, 'every row block written into the LDA basis passed through '
           'sklearn.preprocessing.normalize')
  f0 = repo.get_func('scml.SCML_Supervised._generate_bases_LDA')
  rep.analysed(f0)
  lroles = {}
  for r_ in ast.walk(f0.node):
    if isinstance(r_, ast.Return) and isinstance(r_.value, ast.Tuple) and \
            r_.value.elts and isinstance(r_.value.elts[0], ast.Name):
      lroles[r_.value.elts[0].id] = 'basis'
  f = astutil.role_view(f0, lroles)
  stores = [n for n in ast.walk(f.node) if isinstance(n, ast.Assign) and
            isinstance(n.targets[0], ast.Subscript) and
            ast.unparse(n.targets[0].value) == 'basis']
  if not stores:
    rep.unknown(R, 'scml.SCML_Supervised._generate_bases_LDA', site(f),
                'no store into basis')
  for s in stores:
    names = [x.id for x in ast.walk(s.value) if isinstance(x, ast.Name)]
    ok = False
    for nm in names:
      for (n, v) in guards.assignments(f.node, nm):
        if isinstance(v, ast.Call) and canon(repo.dotted(
                f.module, v.func) or '') == canon(
                    'sklearn.preprocessing.normalize'):
          ok = True
    if isinstance(s.value, ast.Call) and canon(repo.dotted(
            f.module, s.value.func) or '') == canon(
                'sklearn.preprocessing.normalize'):
      ok = True
    rep.add(R, 'scml.SCML_Supervised._generate_bases_LDA:store',
            'derived' if ok else 'refuted', site(f, s),
            '' if ok else 'basis rows %s are not normalised'
            % ast.unparse(s.value))


# ------------------------------------------------- dual-averaging formulas
from ..ratfunc import Rat, LinM, eval_expr, rat_sqrt


def rule_update_formulas(repo, rep):
  R = 'R-FORM:scml-dual-averaging-step'
  rep.rule(R, 'the statements of one SCML iteration, as exact rational '
           'functions of (t = iter, g = mini-batch sub-gradient, previous '
           'average, previous AdaGrad norm, gamma, delta, beta), are the '
           'documented scheme: running average (t avg + g) / (t + 1); '
           'ada <- sqrt(ada^2 + g^2); scale -(t + 1) / (gamma (delta + ada)); '
           'w = scale * min(avg + beta, 0); sub-gradient = sum of the violated '
           'rows / batch_size (reference frozen from the documented scheme)')
  _f0, f = _fit_view(repo)
  loops = [n for n in ast.walk(f.node) if isinstance(n, ast.For) and
           ast.unparse(n.iter) == 'range(self.max_iter)']
  if len(loops) != 1:
    rep.unknown(R, 'scml._BaseSCML._fit', site(f), 'main loop not found')
    return
  stm = {}
  for s in loops[0].body:
    if isinstance(s, ast.Assign) and isinstance(s.targets[0], ast.Name):
      stm.setdefault(s.targets[0].id, s)
  t, g, avg, ada, gam, dl, be = (Rat.sym(x) for x in
                                 ('t', 'g', 'avg', 'ada', 'gamma', 'delta',
                                  'beta'))
  one = Rat.const(1)
  tmp_env = {}
  scal = {'iter': 't', 'grad_w': 'g', 'avg_grad_w': 'avg',
          'ada_grad_w': 'ada', 'self.gamma': 'gamma', 'delta': 'delta',
          'self.beta': 'beta'}
  # scalar temporaries of the loop body (e.g. step = iter + 1)
  for s_ in loops[0].body:
    if isinstance(s_, ast.Assign) and len(s_.targets) == 1 and \
            isinstance(s_.targets[0], ast.Name) and \
            s_.targets[0].id not in scal and \
            s_.targets[0].id not in ('w', 'idx', 'slack_val', 'slack_mask'):
      tv = eval_expr(s_.value, scal, {})
      names_ = set(x.id for x in ast.walk(s_.value)
                   if isinstance(x, ast.Name))
      if isinstance(tv, Rat) and names_ <= {'iter'}:
        tmp_env[s_.targets[0].id] = tv
  checks = []
  if 'avg_grad_w' in stm:
    v = eval_expr(stm['avg_grad_w'].value, scal, {}, tmp_env)
    checks.append(('avg_grad_w', v, (t * avg + g) / (t + one)))
  if 'ada_grad_w' in stm:
    e = stm['ada_grad_w'].value
    v = None
    if isinstance(e, ast.Call) and ast.unparse(e.func) in ('np.sqrt',) and \
            e.args:
      env = {'np.square(ada_grad_w)': ada * ada, 'np.square(grad_w)': g * g}
      v = eval_expr(e.args[0], scal, {}, env)
    checks.append(('ada_grad_w^2', v, ada * ada + g * g))
  if 'scale_f' in stm:
    v = eval_expr(stm['scale_f'].value, scal, {}, tmp_env)
    checks.append(('scale_f', v, Rat.const(-1) * (t + one) /
                   (gam * (dl + ada))))
  for name, v, want in checks:
    key = 'scml._BaseSCML._fit:' + name
    if v is None or not isinstance(v, Rat):
      rep.unknown(R, key, site(f, stm[name.split('^')[0]]),
                  'statement not derivable')
    elif v == want:
      rep.derived(R, key, site(f, stm[name.split('^')[0]]),
                  sample=dict(rule=R, quantity=name, form=repr(v)))
    else:
      rep.refuted(R, key, site(f, stm[name.split('^')[0]]),
                  '%s is %r, documented %r' % (name, v, want))
  # w = scale * min(avg + beta, 0): a product of the scale and a trimming
  # whose argument is compared as a rational function
  if 'w' in stm:
    e = stm['w'].value
    key = 'scml._BaseSCML._fit:w'
    verdict, why = None, ''
    if isinstance(e, ast.BinOp) and isinstance(e.op, ast.Mult):
      fac = [e.left, e.right]
      tr = [x for x in fac if isinstance(x, ast.Call) and
            canon(repo.dotted(f.module, x.func) or '') in
            (canon('numpy.minimum'), canon('numpy.fmin'))
            and len(x.args) == 2 and not x.keywords]
      sc = [x for x in fac if x not in tr]
      # the scale factor: the named temporary (checked separately as
      # `scale_f`) or the same expression written in place
      sc_ok = None
      if len(sc) == 1:
        if ast.unparse(sc[0]) == 'scale_f' and 'scale_f' in stm:
          sc_ok = True
        else:
          sv = eval_expr(sc[0], scal, {}, tmp_env)
          if isinstance(sv, Rat):
            sc_ok = sv == Rat.const(-1) * (t + one) / (gam * (dl + ada))
      if len(sc) == 1 and len(tr) == 1 and sc_ok is not None:
        a0, a1 = tr[0].args
        zero = [a for a in (a0, a1) if isinstance(a, ast.Constant) and
                a.value == 0 and not isinstance(a.value, bool)]
        other = [a for a in (a0, a1) if a not in zero]
        if len(zero) == 1 and len(other) == 1:
          v = eval_expr(other[0], scal, {})
          if isinstance(v, Rat):
            verdict = (v == avg + be) and sc_ok
            why = 'trimmed quantity is %r, documented %r' % (v, avg + be) \
                if v != avg + be else 'the scale factor %s is not the ' \
                'documented -(t + 1) / (gamma (delta + ada))' \
                % ast.unparse(sc[0])
    if verdict is True:
      rep.derived(R, key, site(f, stm['w']))
    elif verdict is False:
      rep.refuted(R, key, site(f, stm['w']), why)
    else:
      rep.unknown(R, key, site(f, stm['w']), 'w = %s is not of the form '
                  'scale_f * minimum(<rational>, 0)' % ast.unparse(e))
  # mini-batch sub-gradient: the rows of the batch whose margin is violated,
  # summed and divided by the batch size - compared after unfolding every
  # temporary of the loop body (so it does not matter which ones exist)
  if 'grad_w' in stm:
    body_ = loops[0].body
    gexp = astutil.unfold(stm['grad_w'].value, body_, stm['grad_w'],
                          stop=('w', 'dist_diff', 'idx', 'avg_grad_w',
                                'ada_grad_w'))
    got = ast.unparse(gexp).replace('rand_int[iter]', 'idx')
    margins = ('1 + np.matmul(dist_diff[idx, :], w.T)',
               '1 + dist_diff[idx, :].dot(w.T)',
               'np.matmul(dist_diff[idx, :], w.T) + 1',
               '1 + np.matmul(dist_diff[idx], w.T)',
               '1 + dist_diff[idx] @ w.T', '1 + dist_diff[idx, :] @ w.T')
    masks = ['np.squeeze(%s > 0, axis=1)' % m for m in margins] + \
        ['(%s > 0).ravel()' % m for m in margins] + \
        ['(%s > 0)[:, 0]' % m for m in margins]
    wants = []
    for m in masks:
      wants += ['np.sum(dist_diff[idx[%s], :], axis=0, keepdims=True) / '
                'self.batch_size' % m,
                'np.sum(dist_diff[idx[%s]], axis=0, keepdims=True) / '
                'self.batch_size' % m,
                'np.sum(dist_diff[idx, :][%s], axis=0, keepdims=True) / '
                'self.batch_size' % m,
                'np.sum(dist_diff[idx][%s], axis=0, keepdims=True) / '
                'self.batch_size' % m,
                'np.sum(dist_diff[idx, :][%s, :], axis=0, keepdims=True) / '
                'self.batch_size' % m,
                'np.sum(dist_diff[idx][%s, :], axis=0, keepdims=True) / '
                'self.batch_size' % m]
    # the divisor, with every temporary of the function unfolded
    den_bad = None
    if isinstance(gexp, ast.BinOp) and isinstance(gexp.op, ast.Div):
      top_ = loops[0]
      pm_ = astutil.parents(f.node)
      while top_ not in f.node.body and top_ in pm_:
        top_ = pm_[top_]
      den = astutil.unfold(gexp.right, f.node.body, top_,
                           stop=tuple(f.params())) \
          if top_ in f.node.body else gexp.right
      num_ok = any(w_.rsplit(' / ', 1)[0] == ast.unparse(gexp.left)
                   .replace('rand_int[iter]', 'idx') for w_ in wants)
      if num_ok and ast.unparse(den) != 'self.batch_size':
        den_bad = ast.unparse(den)
    if got in wants:
      rep.derived(R, 'scml._BaseSCML._fit:grad_w', site(f, stm['grad_w']))
    elif den_bad is not None:
      rep.refuted(R, 'scml._BaseSCML._fit:grad_w', site(f, stm['grad_w']),
                  'the mini-batch sub-gradient is divided by %s, the '
                  'documented scheme divides by self.batch_size' % den_bad)
    else:
      rep.unknown(R, 'scml._BaseSCML._fit:grad_w', site(f, stm['grad_w']),
                  'grad_w = %s is not in the table of recognised forms' % got)
  # the scheme runs its max_iter iterations: the best checkpoint is chosen
  # among all of them
  Re = 'R-GUARD:scml-no-early-exit'
  rep.rule(Re, 'the main SCML loop has no early exit (break / return): '
           'every evaluation checkpoint up to max_iter competes for the '
           'lowest objective')
  main = loops[0]
  inner = [n for n in ast.walk(main) if isinstance(n, (ast.For, ast.While))
           and n is not main]
  exits = [b for b in ast.walk(main) if isinstance(b, (ast.Break, ast.Return))
           and not any(b in list(ast.walk(i)) for i in inner)]
  if exits:
    rep.refuted(Re, 'scml._BaseSCML._fit', site(f, exits[0]), 'the loop is '
                'left early under %s: later checkpoints with a lower '
                'objective are never evaluated'
                % astutil.path_condition(main, exits[0]))
  else:
    rep.derived(Re, 'scml._BaseSCML._fit', site(f, main))
  dl_def = [v for (n, v) in guards.assignments(f.node, 'delta')
            if v is not None]
  okd = dl_def and isinstance(dl_def[0], ast.Constant) and \
      isinstance(dl_def[0].value, float) and dl_def[0].value > 0
  rep.add(R, 'scml._BaseSCML._fit:delta', 'derived' if okd else 'refuted',
          site(f), '' if okd else 'delta is not a positive constant')


def rule_objective_and_distances(repo, rep):
  R = 'R-FORM:scml-checkpoint-objective'
  rep.rule(R, 'at a checkpoint the objective is beta * sum(w) + (1 / '
           'n_triplets) * sum of the positive margins 1 + dist_diff . w over '
           'all triplets (as an exact rational function of those two sums); '
           'checkpoints are the iterations with (iter + 1) % output_iter == '
           '0; active bases are those with w > 0; dist_diff is the squared '
           'projection of the (anchor, positive) difference minus that of the '
           '(anchor, negative) difference on every basis element')
  _f0, f = _fit_view(repo)
  key = 'scml._BaseSCML._fit:'
  loops = [n for n in ast.walk(f.node) if isinstance(n, ast.For) and
           ast.unparse(n.iter) == 'range(self.max_iter)']
  if len(loops) != 1:
    rep.unknown(R, key + 'objective', site(f), 'main loop not found')
    return
  lp = loops[0]
  # the checkpoint block: where best_w is assigned
  asg = [n for n in ast.walk(lp) if isinstance(n, ast.Assign) and
         any(t_ == 'best_w' for (t_, v_) in astutil.assign_pairs(n))]
  if not asg:
    rep.unknown(R, key + 'objective', site(f), 'checkpoint not found')
    return
  sched = []
  for (ifn, ch) in astutil.enclosing(lp, asg[0], ast.If):
    tun = astutil.unfold(ifn.test, lp.body, ifn if ifn in lp.body else
                         lp.body[-1], stop=('iter', 'w', 'best_obj'))
    if 'output_iter' in ast.unparse(tun):
      pos = ch in ifn.body
      sched.append(astutil.norm_atom(
          tun if pos else ast.UnaryOp(op=ast.Not(), operand=tun)))
  good = ('(iter + 1) % self.output_iter == 0',
          '0 == (iter + 1) % self.output_iter',
          'not (iter + 1) % self.output_iter')
  # `continue`-style schedules leave no enclosing test: look for the guard
  if not sched:
    for n in lp.body:
      if isinstance(n, ast.If) and 'output_iter' in ast.unparse(n.test) and \
              any(isinstance(x, ast.Continue) for x in n.body):
        tun = astutil.unfold(n.test, lp.body, n, stop=('iter',))
        neg = astutil.norm_atom(ast.UnaryOp(op=ast.Not(), operand=tun))
        sched = [neg]
  if sched and all(c in good for c in sched):
    rep.derived(R, key + 'schedule', site(f, asg[0]))
  elif sched and all(c in ('(iter + 1) % self.output_iter != 0',
                           'iter % self.output_iter == 0',
                           '(iter - 1) % self.output_iter == 0',
                           '(iter + 1) % self.output_iter == 1')
                     for c in sched):
    rep.refuted(R, key + 'schedule', site(f, asg[0]), 'checkpoints are taken '
                'under %s, documented (iter + 1) %% output_iter == 0' % sched)
  elif sched:
    rep.unknown(R, key + 'schedule', site(f, asg[0]), 'checkpoint schedule '
                '%s not in the table' % sched)
  else:
    rep.unknown(R, key + 'schedule', site(f, asg[0]), 'checkpoint schedule '
                'not found')
  # objective value compared at the checkpoint
  blk = astutil.parents(f.node).get(asg[0])
  test = blk.test if isinstance(blk, ast.If) else None
  objx = None
  if isinstance(test, ast.Compare):
    for side in (test.left, test.comparators[0]):
      if ast.unparse(side) != 'best_obj':
        objx = side
  if objx is None:
    rep.unknown(R, key + 'objective', site(f, asg[0]), 'objective expression '
                'not found')
  else:
    holder = astutil.parents(f.node).get(blk)
    body = getattr(holder, 'body', lp.body)
    if blk not in body:
      body = lp.body
    un = astutil.unfold(objx, body, blk,
                        stop=('w', 'dist_diff', 'n_triplets', 'iter'))
    # names defined before the loop (the number of triplets)
    top_ = lp
    pm_ = astutil.parents(f.node)
    while top_ not in f.node.body and top_ in pm_:
      top_ = pm_[top_]
    if top_ in f.node.body:
      un = astutil.unfold(un, f.node.body, top_,
                          stop=('w', 'dist_diff', 'iter', 'best_obj') +
                          tuple(f.params()))
    txt = ast.unparse(un)
    margins = ('1 + np.matmul(dist_diff, w.T)', '1 + dist_diff.dot(w.T)',
               'np.matmul(dist_diff, w.T) + 1', '1 + dist_diff @ w.T',
               'dist_diff.dot(w.T) + 1', 'dist_diff @ w.T + 1')
    scal = {'self.beta': 'beta', 'n_triplets': 'n', 'dist_diff.shape[0]': 'n',
            'len(dist_diff)': 'n', 'np.sum(w)': 'S', 'w.sum()': 'S',
            'triplets.shape[0]': 'n', 'len(triplets)': 'n'}
    for m in margins:
      scal['np.sum((%s)[%s > 0])' % (m, m)] = 'H'
      scal['(%s)[%s > 0].sum()' % (m, m)] = 'H'
      scal['np.sum(np.maximum(%s, 0))' % m] = 'H'
      scal['np.sum(np.maximum(0, %s))' % m] = 'H'
      scal['np.maximum(%s, 0).sum()' % m] = 'H'
    v = eval_expr(un, scal, {})
    be, n_, S, H = (Rat.sym(x) for x in ('beta', 'n', 'S', 'H'))
    want = S * be + H / n_
    if not isinstance(v, Rat):
      rep.unknown(R, key + 'objective', site(f, asg[0]), 'objective %s is '
                  'not a rational function of the recognised sums' % txt)
    elif v == want:
      rep.derived(R, key + 'objective', site(f, asg[0]),
                  sample=dict(rule=R, objective=repr(v)))
    else:
      rep.refuted(R, key + 'objective', site(f, asg[0]), 'the checkpoint '
                  'objective is %r, documented %r (S = sum of the weights, '
                  'H = sum of the positive margins)' % (v, want))
  # active bases
  _g0, g = _cbw_view(repo)
  ad = [n for n in ast.walk(g.node) if isinstance(n, ast.Assign) and
        'active_idx' in [ast.unparse(x) for x in ast.walk(n.targets[0])
                         if isinstance(x, ast.Name)]]
  k2 = 'scml._BaseSCML._components_from_basis_weights:active'
  if ad:
    t = ast.unparse(ad[0].value).replace(' ', '')
    ok = t in ('w>0', 'np.flatnonzero(w[0]>0)', 'np.flatnonzero(w>0)',
               'np.where(w>0)[1]', 'np.nonzero(w>0)[1]', 'np.where(w[0]>0)[0]')
    bad = any(x in t for x in ('w>=0', 'w<0', 'w<=0', 'w!=0', 'w>1'))
    rep.add(R, k2, 'derived' if ok else 'refuted' if bad else 'unknown',
            site(g, ad[0]), '' if ok else 'active bases are selected by %s, '
            'documented w > 0' % ast.unparse(ad[0].value))
  else:
    rep.unknown(R, k2, site(g), 'selection of the active bases not found')
  # dist_diff
  _dist_diff_interp(repo, rep, R)


def _dist_diff_interp(repo, rep, R):
  """_compute_dist_diff(triplets, X, basis) interpreted on symbolic tokens:
  the result is, for every triplet (a, p, n) and basis element b,
  ((x_a - x_p) . b)^2 - ((x_a - x_n) . b)^2"""
  from ..minterp import Interp, World, Undecided
  from .c07b import S, tg
  h = repo.get_func('scml._BaseSCML._compute_dist_diff')
  rep.analysed(h)
  key = 'scml._BaseSCML._compute_dist_diff'
  N = 5
  full = slice(None, None, None)

  class W(World):
    def __init__(self):
      self.flags = []

    def attr(self, it, v, attr, node):
      if v == S('basis') and attr == 'T':
        return S('basisT')
      if v == S('T') and attr == 'shape':
        return (N, 3)
      if v == S('X') and attr == 'shape':
        return (S('npoints'), S('d'))
      if tg(v) in ('stack', 'sorted') and attr == 'shape':
        return (N * len(v[1]), 2)
      return NotImplemented

    def _mm(self, a, b):
      if a == S('X') and b == S('basisT'):
        return S('XB')
      if (a == S('X') and b == S('basis')) or \
              (a == S('basis') and b == S('X')):
        self.flags.append('the points are projected by X.basis instead of '
                          'X.basis^T')
        return S('XB')
      return NotImplemented

    def binop(self, it, op, a, b, node):
      if isinstance(op, ast.MatMult):
        return self._mm(a, b)
      if isinstance(op, (ast.Sub, ast.Add)):
        if tg(a) == 'proj' and tg(b) == 'proj' and a[1] == b[1] and \
                {a[2], b[2]} == {0, 1}:
          return S('pdiff', a[1], isinstance(op, ast.Sub))
        if tg(a) == 'projcol' and tg(b) == 'projcol':
          return S('pd', tuple(sorted((a[1], b[1]))), isinstance(op, ast.Sub))
        if tg(a) == 'd' and tg(b) == 'd':
          return S('diff', a[1], b[1], isinstance(op, ast.Sub))
      # pair (i, j) encoded as i * K + j: injective iff K exceeds every j,
      # i.e. K is the number of points (or max index + 1), nothing else
      if isinstance(op, ast.Mult):
        for x, y in ((a, b), (b, a)):
          if tg(x) == 'scol' and x[2] == 0:
            return S('scaled', x[1], y)
      if isinstance(op, ast.Add):
        for x, y in ((a, b), (b, a)):
          if tg(x) == 'scaled' and tg(y) == 'scol' and y[1] == x[1] and \
                  y[2] == 1:
            if x[2] not in (S('npoints'),):
              self.flags.append(
                  'the pairs of point indices are encoded as i * K + j with '
                  'K = %s, which is not the number of points: two different '
                  'pairs get the same code as soon as an index reaches K, '
                  'and a triplet then receives another pair\'s distances'
                  % ('the number of triplets' if x[2] == N else repr(x[2])))
            return S('codes', x[1])
      if isinstance(op, ast.Pow) and b == 2:
        return self._sq(a)
      if isinstance(op, ast.Mult) and a == b:
        return self._sq(a)
      return NotImplemented

    def _sq(self, a):
      if tg(a) in ('pdiff', 'pd') and not a[2]:
        self.flags.append('the projections of the two points of a pair are '
                          'added, not subtracted')
      if tg(a) == 'pdiff':
        return S('sq', a[1], True)
      if tg(a) == 'pd':
        return S('d', a[1])
      return NotImplemented

    def subscript(self, it, base, idx, node):
      if base == S('T') and isinstance(idx, tuple) and len(idx) == 2 and \
              idx[0] == full:
        if isinstance(idx[1], list) and len(idx[1]) == 2:
          return S('cols', tuple(idx[1]))
        if isinstance(idx[1], int):
          return S('col', idx[1])
        if isinstance(idx[1], slice) and idx[1].step is None:
          lo, hi = idx[1].start or 0, idx[1].stop
          if hi is not None and hi - lo == 2:
            return S('cols', (lo, lo + 1))
      if tg(base) == 'uniq' and isinstance(idx, tuple) and \
              idx[0] == full and idx[1] in (0, 1):
        return S('ucol', base[1], idx[1])
      # the two columns of the stacked pair list (for an integer encoding of
      # the pairs) and the rows picked by np.unique's first-occurrence index
      if tg(base) == 'stack' and isinstance(idx, tuple) and \
              idx[0] == full and idx[1] in (0, 1):
        return S('scol', base[1], idx[1])
      if tg(base) == 'stack' and tg(idx) == 'first' and idx[1] == base[1]:
        return S('uniq', base[1])
      if base == S('XB'):
        i0 = idx[0] if isinstance(idx, tuple) else idx
        rest = idx[1:] if isinstance(idx, tuple) else ()
        if all(x == full for x in rest):
          if tg(i0) == 'ucol':
            return S('proj', i0[1], i0[2])
          if tg(i0) == 'col':
            return S('projcol', i0[1])
      if tg(base) == 'inv' and isinstance(idx, slice) and idx.step is None:
        nb = len(base[1])
        if idx.start is None and idx.stop == N:
          return S('invpart', base[1], 0)
        if idx.start == N and idx.stop is None and nb == 2:
          return S('invpart', base[1], 1)
        if idx.start == N and idx.stop == 2 * N and nb == 2:
          return S('invpart', base[1], 1)
        return S('invpart-bad', idx.start, idx.stop)
      if tg(base) == 'sq' and tg(idx) == 'invpart':
        if base[1] != idx[1]:
          return NotImplemented
        blk = base[1][idx[2]]
        return S('d', tuple(sorted(blk)))
      return NotImplemented

    def call(self, it, d, recv, args, kwargs, node):
      if d == 'len' and args and args[0] == S('T'):
        return N
      if d == 'len' and args and args[0] == S('X'):
        return S('npoints')
      if d.startswith('.'):
        if d == '.dot' and len(args) == 1:
          return self._mm(recv, args[0])
        return NotImplemented
      short = d.rsplit('.', 1)[-1]
      if not d.startswith('numpy.'):
        return NotImplemented
      if short in ('matmul', 'dot') and len(args) == 2:
        return self._mm(args[0], args[1])
      if short in ('vstack', 'concatenate') and len(args) == 1 and \
              isinstance(args[0], (tuple, list)) and \
              all(tg(x) == 'cols' for x in args[0]) and \
              kwargs.get('axis', 0) == 0:
        return S('stack', tuple(x[1] for x in args[0]))
      if short == 'sort' and args and tg(args[0]) == 'stack':
        ax = kwargs.get('axis', args[1] if len(args) > 1 else -1)
        if ax in (-1, 1):
          return args[0]       # order inside a pair: irrelevant for squares
        return S('scrambled')
      if short == 'unique' and args and tg(args[0]) == 'stack' and \
              kwargs.get('axis') == 0 and kwargs.get('return_inverse') and \
              set(kwargs) == {'axis', 'return_inverse'}:
        return (S('uniq', args[0][1]), S('inv', args[0][1]))
      if short == 'unique' and args and tg(args[0]) == 'codes' and \
              kwargs.get('return_inverse') and not kwargs.get('axis'):
        outs = [S('ucodes', args[0][1])]
        if kwargs.get('return_index'):
          outs.append(S('first', args[0][1]))
        outs.append(S('inv', args[0][1]))
        if kwargs.get('return_counts'):
          outs.append(S('counts'))
        return tuple(outs)
      if short in ('square',) and len(args) == 1:
        return self._sq(args[0])
      if short == 'power' and len(args) == 2 and args[1] == 2:
        return self._sq(args[0])
      if short == 'subtract' and len(args) == 2:
        return self.binop(it, ast.Sub(), args[0], args[1], node)
      return NotImplemented
  ps = h.params()
  if len(ps) != 4:
    rep.unknown(R, key, site(h), 'parameters %s' % ps)
    return
  try:
    w = W()
    out = Interp(repo, h, w).run({ps[0]: S('self'), ps[1]: S('T'),
                                  ps[2]: S('X'), ps[3]: S('basis')})
  except Undecided as u:
    rep.unknown(R, key, site(h), str(u))
    return
  if out[0] == 'raise':
    rep.refuted(R, key, site(h, out[2]), 'raises %s' % out[1][0])
    return
  res = out[1]
  if w.flags:
    rep.refuted(R, key, site(h), w.flags[0])
  elif res == S('diff', (0, 1), (0, 2), True):
    rep.derived(R, key, site(h), sample=dict(
        rule=R, result='d(anchor, positive) - d(anchor, negative) per basis '
        'element'))
  elif tg(res) == 'diff':
    rep.refuted(R, key, site(h), 'dist_diff is d%s %s d%s of the squared '
                'projections on the basis, documented d(0, 1) - d(0, 2) '
                '(anchor-positive minus anchor-negative)' % (
                    res[1], '-' if res[3] else '+', res[2]))
  else:
    # forms that are understood and different
    txt = repr(res)
    if any(k in txt for k in ('scrambled', 'invpart-bad')):
      rep.refuted(R, key, site(h), 'dist_diff evaluates to %s' % txt)
    else:
      rep.unknown(R, key, site(h), 'dist_diff evaluates to %s' % txt)


def rule_triplet_basis_guard(repo, rep):
  R = 'R-GUARD:triplet-basis-feasibility'
  rep.rule(R, 'basis generation from triplet differences draws n_features '
           'triplets without replacement, which is possible exactly when '
           'n_features <= n_triplets: the ValueError about too few triplets '
           'is unreachable for n_features <= n_triplets (representatives '
           '(3, 3), (3, 4), (2, 5), (1, 1)) and reachable for n_features > '
           'n_triplets ((4, 3), (2, 1))')
  from .. import guardeval
  import copy
  f = repo.get_func('scml._BaseSCML._generate_bases_dist_diff')
  if f is None:
    rep.unknown(R, 'scml._BaseSCML._generate_bases_dist_diff', '', 'vanished')
    return
  rep.analysed(f)
  key = 'scml._BaseSCML._generate_bases_dist_diff'
  dn, tn = set(), set()
  for n in ast.walk(f.node):
    if isinstance(n, ast.Assign):
      for tg_, val in astutil.assign_pairs(n):
        v = ast.unparse(val)
        if v in ('X.shape[1]', 'X.shape[-1]'):
          dn.add(tg_)
        if v in ('triplets.shape[0]', 'len(triplets)'):
          tn.add(tg_)
      if isinstance(n.targets[0], ast.Tuple) and \
              len(n.targets[0].elts) == 2 and \
              ast.unparse(n.value) == 'X.shape':
        dn.add(ast.unparse(n.targets[0].elts[1]))
  raises = []
  for n in ast.walk(f.node):
    if isinstance(n, ast.Raise):
      conds = ' '.join(astutil.path_condition(f.node, n))
      if any(x in conds for x in tn | {'triplets.shape[0]', 'len(triplets)'}):
        raises.append(n)
  if len(raises) != 1:
    rep.unknown(R, key, site(f), '%d rejections that depend on the number '
                'of triplets' % len(raises))
    return
  target = raises[0]

  class Sub(ast.NodeTransformer):
    def __init__(self, d, n):
      self.d, self.n = d, n

    def visit_Name(self, x):
      if isinstance(x.ctx, ast.Load) and x.id in dn:
        return ast.copy_location(ast.Constant(self.d), x)
      if isinstance(x.ctx, ast.Load) and x.id in tn:
        return ast.copy_location(ast.Constant(self.n), x)
      return x

    def visit_Subscript(self, x):
      t = ast.unparse(x)
      if t in ('X.shape[1]', 'X.shape[-1]'):
        return ast.copy_location(ast.Constant(self.d), x)
      if t == 'triplets.shape[0]':
        return ast.copy_location(ast.Constant(self.n), x)
      self.generic_visit(x)
      return x

    def visit_Call(self, x):
      if ast.unparse(x) == 'len(triplets)':
        return ast.copy_location(ast.Constant(self.n), x)
      self.generic_visit(x)
      return x
  bad = unk = None
  for (d, n, feasible) in ((3, 3, True), (3, 4, True), (2, 5, True),
                           (1, 1, True), (4, 3, False), (2, 1, False)):
    def tev(test, d=d, n=n):
      return guardeval.ev(Sub(d, n).visit(copy.deepcopy(test)), {})
    r = guardeval.reaches(f.node.body, target, tev)
    if feasible and r == 'yes':
      bad = bad or 'n_features = %d, n_triplets = %d is rejected although ' \
          '%d triplets can be drawn' % (d, n, d)
    elif feasible and r == 'maybe':
      # reachable only through undecided tests that precede it: decide the
      # guard itself
      conds = astutil.enclosing(f.node, target, ast.If)
      try:
        if conds and all(tev(ifn.test) == (ch in ifn.body)
                         for (ifn, ch) in conds[:1]):
          bad = bad or 'n_features = %d, n_triplets = %d is rejected ' \
              'although %d triplets can be drawn' % (d, n, d)
      except guardeval.Undecided as u:
        unk = unk or str(u)
    elif not feasible and r == 'no':
      bad = bad or 'n_features = %d > n_triplets = %d is not rejected: the ' \
          'draw without replacement then fails inside numpy' % (d, n)
  if bad:
    rep.refuted(R, key, site(f, target), bad)
  elif unk:
    rep.unknown(R, key, site(f, target), unk)
  else:
    rep.derived(R, key, site(f, target))


def rule_basis_from_differences(repo, rep):
  R = 'R-FORM:scml-basis-from-differences'
  rep.rule(R, 'the triplet-difference basis is built from differences of the '
           'two points of a pair (X[p[:, 0]] - X[p[:, 1]], either order): a '
           'sum of the two rows would make the basis depend on the origin')
  f = repo.get_func('scml._BaseSCML._generate_bases_dist_diff')
  if f is None:
    rep.unknown(R, 'scml._BaseSCML._generate_bases_dist_diff', '', 'vanished')
    return
  key = 'scml._BaseSCML._generate_bases_dist_diff:pair-differences'
  xs = f.params()[2] if len(f.params()) >= 3 else 'X'
  found = []
  for n in ast.walk(f.node):
    if isinstance(n, ast.BinOp) and isinstance(n.op, (ast.Sub, ast.Add)) and \
            all(isinstance(o, ast.Subscript) and ast.unparse(o.value) == xs
                for o in (n.left, n.right)):
      def col(o):
        sl = o.slice.elts[0] if isinstance(o.slice, ast.Tuple) else o.slice
        if isinstance(sl, ast.Subscript) and isinstance(sl.slice, ast.Tuple) \
                and len(sl.slice.elts) == 2 and \
                isinstance(sl.slice.elts[1], ast.Constant):
          return ast.unparse(sl.value), sl.slice.elts[1].value
        return None, None
      (b1, c1), (b2, c2) = col(n.left), col(n.right)
      if b1 is not None and b1 == b2 and {c1, c2} == {0, 1}:
        found.append(n)
  if not found:
    rep.unknown(R, key, site(f), 'difference of the two points of a pair not '
                'found')
    return
  for n in found:
    if isinstance(n.op, ast.Sub):
      rep.derived(R, key, site(f, n))
    else:
      rep.refuted(R, key, site(f, n), 'the two points of a pair are ADDED '
                  '(%s): the generated basis depends on the origin of the '
                  'data' % ast.unparse(n))


def check(repo, rep, tier):
  rule_weights_nonneg(repo, rep)
  rule_components_form(repo, rep)
  rule_low_rank_condition(repo, rep)
  rule_lda_normalised(repo, rep)
  rule_update_formulas(repo, rep)
  rule_objective_and_distances(repo, rep)
  rule_triplet_basis_guard(repo, rep)
  rule_basis_from_differences(repo, rep)
  # option paths executable (C03(7)) and RNG discipline (C17), SCML only
  before = len(rep.obs)
  fl = len(rep.floors)
  c03.rule_defassign(repo, rep)
  c17.rule_rng(repo, rep)
  c17.rule_no_hyper_writes(repo, rep, only=['SCML', 'SCML_Supervised'])
  rep.obs[before:] = [o for o in rep.obs[before:]
                      if o['construct'].startswith(('SCML.', 'SCML_Supervised.'))]
  rep.floors = rep.floors[:fl]


