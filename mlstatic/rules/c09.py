"""C09 - closed-form learners compute their documented formula (structural
necessary conditions only: axes, sample-axis convention, def-use chain)."""
import ast
from fractions import Fraction
from ..model import FuncInfo, canon
from ..engine import Engine, V, State, NOCONST
from ..algdom import AlgDomain
from ..algebra import UNKNOWN, Poly, SExpr, Vec, Lin, A
from .. import astutil, guards
from .common import site
from .c20 import _gram_equals_M, _pinv_form

ORDER_FUNCS = {canon('numpy.partition'): 2, canon('numpy.argpartition'): 2,
               canon('numpy.sort'): 1, canon('numpy.argsort'): 1}
NDIM_OF_CALL = {canon('sklearn.metrics.pairwise_distances'): 2,
                canon('sklearn.metrics.euclidean_distances'): 2,
                canon('numpy.vstack'): 2, canon('numpy.outer'): 2,
                canon('numpy.cov'): 2}
EIG_FUNCS = set(canon(x) for x in ('numpy.linalg.eigh', 'numpy.linalg.eig',
                                   'scipy.linalg.eigh', 'scipy.linalg.eig',
                                   'scipy.sparse.linalg.eigsh'))


def _ndim_of(repo, f, expr, depth=0, before=None):
  """ndim of an expression inferred from how it was produced (or None)."""
  if depth > 4:
    return None
  if isinstance(expr, ast.UnaryOp):
    return _ndim_of(repo, f, expr.operand, depth + 1, before)
  if isinstance(expr, ast.Attribute) and expr.attr in ('real', 'T'):
    return _ndim_of(repo, f, expr.value, depth + 1, before)
  if isinstance(expr, ast.Call):
    d = repo.dotted(f.module, expr.func)
    d = canon(d) if d else None
    if d in NDIM_OF_CALL:
      return NDIM_OF_CALL[d]
    if d in ORDER_FUNCS and expr.args:
      return _ndim_of(repo, f, expr.args[0], depth + 1, before)
    return None
  if isinstance(expr, ast.Name):
    # single assignment in the function
    defs = []
    limit = before if before is not None else getattr(expr, 'lineno', 10**9)
    for n in ast.walk(f.node):
      if isinstance(n, ast.Assign) and n.lineno < limit:
        for t in n.targets:
          if isinstance(t, ast.Name) and t.id == expr.id:
            defs.append((n.lineno, None, n.value))
          elif isinstance(t, ast.Tuple):
            for i, e in enumerate(t.elts):
              if isinstance(e, ast.Name) and e.id == expr.id:
                defs.append((n.lineno, i, n.value))
    # the nearest preceding definition decides
    defs = [(i, v) for (ln, i, v) in sorted(defs, key=lambda x: x[0])[-1:]]
    nds = set()
    for (i, val) in defs:
      if i is None:
        nds.add(_ndim_of(repo, f, val, depth + 1, None))
      elif isinstance(val, ast.Tuple) and i < len(val.elts):
        nds.add(_ndim_of(repo, f, val.elts[i], depth + 1, None))
      elif isinstance(val, ast.Call):
        d = repo.dotted(f.module, val.func)
        d = canon(d) if d else None
        callee = repo.func_by_dotted(repo.dotted(f.module, val.func) or '')
        if d in EIG_FUNCS or (callee is not None and
                              callee.name in ('_eigh',)):
          nds.add(1 if i == 0 else 2)
        else:
          nds.add(None)
      else:
        nds.add(None)
    if len(nds) == 1:
      return nds.pop()
  return None


def rule_order_statistics(repo, rep):
  R = 'R-FORM:order-statistic-axis'
  rep.rule(R, 'where np.partition / argpartition / sort / argsort(a, axis=A) '
           'is immediately indexed to pick a fixed rank k or a rank prefix '
           ':k, the picked axis is the ordered axis A (default: last)')
  n = 0
  for f in repo.all_functions():
    pm = astutil.parents(f.node)
    for call in astutil.calls_in(f.node):
      d = repo.dotted(f.module, call.func)
      d = canon(d) if d else None
      if d not in ORDER_FUNCS:
        continue
      par = pm.get(call)
      if not (isinstance(par, ast.Subscript) and par.value is call):
        continue
      n += 1
      key = '%s:%s' % (f.key, d.rsplit('.', 1)[1])
      axis = -1
      ax = [k for k in call.keywords if k.arg == 'axis']
      if ax:
        try:
          axis = ast.literal_eval(ax[0].value)
        except Exception:
          rep.unknown(R, key, site(f, call), 'axis is not a literal')
          continue
      elif len(call.args) > ORDER_FUNCS[d]:
        try:
          axis = ast.literal_eval(call.args[ORDER_FUNCS[d]])
        except Exception:
          rep.unknown(R, key, site(f, call), 'axis is not a literal')
          continue
      parts = par.slice.elts if isinstance(par.slice, ast.Tuple) \
          else [par.slice]

      def is_full(p):
        # full slice, possibly reversed: keeps every rank
        return isinstance(p, ast.Slice) and p.lower is None and \
            p.upper is None
      picks = [i for i, p in enumerate(parts)
               if not is_full(p) and not (isinstance(p, ast.Constant) and
                                          p.value is Ellipsis)]
      has_ell = any(isinstance(p, ast.Constant) and p.value is Ellipsis
                    for p in parts)
      if len(picks) != 1:
        continue          # not a rank selection
      nd = _ndim_of(repo, f, call.args[0], 0, call.lineno) if call.args \
          else None
      pos = picks[0]
      if has_ell:
        ell = [i for i, p in enumerate(parts)
               if isinstance(p, ast.Constant) and p.value is Ellipsis][0]
        sel_from_end = len(parts) - 1 - pos if pos > ell else None
        if sel_from_end is None:
          sel = pos
        else:
          sel = -1 - sel_from_end
      else:
        sel = pos
      if axis is None:
        continue
      if nd is None and (sel < 0) != (axis < 0):
        rep.unknown(R, key, site(f, call), 'dimensionality of the ordered '
                    'array not derivable')
        continue
      na = axis if axis >= 0 or nd is None else nd + axis
      ns = sel if sel >= 0 or nd is None else nd + sel
      if na == ns:
        rep.derived(R, key, site(f, call),
                    sample=dict(rule=R, site=site(f, call), ordered_axis=axis,
                                picked_axis=sel, ndim=nd))
      else:
        rep.refuted(R, key, site(f, call), 'ordered along axis %s but the '
                    'rank is picked on axis %s: %s' % (axis, sel,
                                                       ast.unparse(par)))
  rep.floor('order-statistic selections found', n, 3)


def rule_cov_sites(repo, rep):
  R = 'R-SIB:cov-sample-axis'
  rep.rule(R, 'every np.cov call on an (n_samples, n_features) array passes '
           'rowvar=False/0 (variables in columns)')
  n = 0
  for f in repo.all_functions():
    for call in astutil.calls_in(f.node):
      d = repo.dotted(f.module, call.func)
      if not d or canon(d) != canon('numpy.cov'):
        continue
      n += 1
      rv = [k for k in call.keywords if k.arg == 'rowvar']
      val = None
      if rv:
        try:
          val = ast.literal_eval(rv[0].value)
        except Exception:
          val = 'unknown'
      elif len(call.args) > 2:
        try:
          val = ast.literal_eval(call.args[2])
        except Exception:
          val = 'unknown'
      else:
        val = True
      key = '%s:np.cov(%s)' % (f.key, ast.unparse(call.args[0])
                               if call.args else '')
      # a transposed argument (features x samples) wants rowvar=True
      if call.args and val in (True, False, 0, 1):
        st_ = astutil.stmt_of(f.node, call)
        a0 = astutil.unfold(call.args[0], f.node.body, st_) \
            if st_ in f.node.body else call.args[0]
        flips = 0
        while True:
          if isinstance(a0, ast.Attribute) and a0.attr == 'T':
            a0, flips = a0.value, flips + 1
          elif isinstance(a0, ast.Call) and not a0.keywords and (
                  (isinstance(a0.func, ast.Attribute) and
                   a0.func.attr == 'transpose' and not a0.args) or
                  (len(a0.args) == 1 and canon(repo.dotted(
                      f.module, a0.func) or '') == canon('numpy.transpose'))):
            a0 = a0.func.value if not a0.args else a0.args[0]
            flips += 1
          else:
            break
        if flips % 2:
          val = not val
      if val in (False, 0):
        rep.derived(R, key, site(f, call))
      elif val == 'unknown':
        rep.unknown(R, key, site(f, call), 'rowvar is not a literal')
      else:
        rep.refuted(R, key, site(f, call), 'np.cov treats rows as variables '
                    '(rowvar=%r) on a samples-by-features array' % (val,))
  rep.floor('np.cov call sites', n, 4)


class CovDomain(AlgDomain):
  def summary(self, target, args, kwargs, node, st):
    if target.name == '_prepare_inputs' and target.cls is not None:
      return V(Poly.sym('X', 'rows'), ty='ndarray')
    return AlgDomain.summary(self, target, args, kwargs, node, st)

  def binop(self, op, l, r, node, st):
    # 1. / M for a 1x1 matrix is its inverse
    if isinstance(op, ast.Div) and self._num(l.d) == 1 and \
            isinstance(r.d, Poly) and r.d.kind == 'mat':
      return Poly.sym('inv(%s)' % self._name_of(r.d), 'mat', symmetric=True)
    return AlgDomain.binop(self, op, l, r, node, st)


def rule_covariance(repo, rep):
  R = 'R-FORM:covariance-learner'
  rep.rule(R, 'Covariance.fit stores L with L^T L = exactly one '
           '(pseudo-)inversion of cov(X, rowvar=False) of the validated data')
  c = repo.get_class('Covariance')
  f = repo.resolve_method(c, 'fit')
  rep.analysed(f)
  Poly.ORTHO.clear()
  dom = CovDomain()
  dom.symm = {'inv(cov(X))'}
  eng = Engine(repo, dom, self_cls=c)
  flow = eng.run(f)
  if not flow.returns:
    rep.refuted(R, 'Covariance.fit', site(f), 'no normal exit')
  for (v, st, node) in flow.returns:
    comp = st.vars.get(('self', 'components_'))
    if comp is None:
      rep.refuted(R, 'Covariance.fit', site(f, node), 'components_ not set')
      continue
    ok, detail = _gram_equals_M(dom, comp.d, st, 'inv(cov(X))')
    if ok is None:
      rep.unknown(R, 'Covariance.fit', site(f, node), detail)
    elif ok:
      rep.derived(R, 'Covariance.fit', site(f, node),
                  sample=dict(rule=R, L=detail, M='inv(cov(X))'))
    else:
      rep.refuted(R, 'Covariance.fit', site(f, node), detail)


class _Centering:
  """Symbolic evaluation of rca._chunk_mean_centering(data, chunks): which
  rows are kept, which selections of the kept rows get which mean
  subtracted, which chunk ids the loop visits.  Values:
    ('data',) ('chunks',) ('known',) mask of chunk != -1
    ('kept',) rows data[known]; ('lab',) chunks[known]
    ('sel', c) the kept rows of chunk c (boolean mask or index vector)
    ('rows', c) kept[sel c]; ('mean', c, axis); ('centred', c, c2)
    ('ids', kind) the sequence the loop runs over"""

  def __init__(self, repo, f):
    self.repo, self.f = repo, f
    p = f.params()
    self.env = {p[0]: ('data',), p[1]: ('chunks',)}
    self.centred = []       # (c, c2, axis, node)
    self.other_writes = []  # writes to the kept rows that are not centrings
    self.loops = []         # (ids value, node)
    self.ret = None

  def dn(self, e):
    d = self.repo.dotted(self.f.module, e)
    return canon(d) if d else None

  def axis_of(self, call):
    for k in call.keywords:
      if k.arg == 'axis':
        return ast.unparse(k.value)
    pos = call.args[1:] if self.dn(call.func) else call.args
    return ast.unparse(pos[0]) if pos else None

  def ev(self, e):
    if isinstance(e, ast.Name):
      return self.env.get(e.id, ('?',))
    if isinstance(e, ast.Constant):
      return ('const', e.value)
    if isinstance(e, ast.UnaryOp) and isinstance(e.op, ast.USub) and \
            isinstance(e.operand, ast.Constant):
      return ('const', -e.operand.value)
    if isinstance(e, ast.Compare) and len(e.ops) == 1:
      a, b = self.ev(e.left), self.ev(e.comparators[0])
      op = e.ops[0]
      if a == ('chunks',) and b[0] == 'const':
        if (isinstance(op, ast.NotEq) and b[1] == -1) or \
                (isinstance(op, ast.GtE) and b[1] == 0) or \
                (isinstance(op, ast.Gt) and b[1] == -1):
          return ('known',)
        return ('badmask', ast.unparse(e))
      if isinstance(op, ast.Eq):
        for x, y in ((a, b), (b, a)):
          if x == ('lab',) and y[0] == 'id':
            return ('sel', y[1])
      return ('?',)
    if isinstance(e, ast.Subscript):
      b = self.ev(e.value)
      if isinstance(e.slice, ast.Constant) and b[0] == 'wheretuple':
        return b[1]
      i = self.ev(e.slice)
      if b == ('data',) and i == ('known',):
        return ('kept',)
      if b == ('chunks',) and i == ('known',):
        return ('lab',)
      if b == ('kept',) and i[0] == 'sel':
        return ('rows', i[1])
      return ('?',)
    if isinstance(e, ast.BinOp):
      a, b = self.ev(e.left), self.ev(e.right)
      if isinstance(e.op, ast.Sub) and a[0] == 'rows' and b[0] == 'mean':
        return ('centred', a[1], b[1], b[2])
      if isinstance(e.op, ast.Add):
        for x, y in ((a, b), (b, a)):
          if x[0] == 'maxid' and y == ('const', 1):
            return ('count', 'max+1')
      return ('?',)
    if isinstance(e, ast.Call):
      d = self.dn(e.func)
      if isinstance(e.func, ast.Attribute) and d is None:
        recv = self.ev(e.func.value)
        m = e.func.attr
        if m in ('astype', 'copy') and recv == ('kept',):
          return ('kept',)
        if m == 'mean' and recv[0] == 'rows':
          return ('mean', recv[1], self.axis_of(e))
        if m == 'mean' and recv == ('kept',):
          return ('mean', '<all kept rows>', self.axis_of(e))
        if m == 'max' and recv in (('chunks',), ('lab',)) and not e.args:
          return ('maxid',)
        return ('?',)
      if d in (canon('numpy.flatnonzero'),) and len(e.args) == 1:
        v = self.ev(e.args[0])
        return v if v[0] == 'sel' else ('?',)
      if d in (canon('numpy.where'), canon('numpy.nonzero')) and \
              len(e.args) == 1:
        v = self.ev(e.args[0])
        return ('wheretuple', v) if v[0] == 'sel' else ('?',)
      if d == canon('numpy.mean') and e.args:
        v = self.ev(e.args[0])
        if v[0] == 'rows':
          return ('mean', v[1], self.axis_of(e))
      if d in (canon('numpy.max'), canon('numpy.amax')) and len(e.args) == 1 \
              and self.ev(e.args[0]) in (('chunks',), ('lab',)):
        return ('maxid',)
      if d == canon('numpy.unique') and len(e.args) == 1 and not e.keywords:
        v = self.ev(e.args[0])
        if v in (('chunks',), ('lab',)):
          return ('ids', 'distinct')
      if isinstance(e.func, ast.Name) and e.func.id == 'int' and e.args:
        return self.ev(e.args[0])
      if isinstance(e.func, ast.Name) and e.func.id == 'len' and e.args:
        v = self.ev(e.args[0])
        if v == ('ids', 'distinct'):
          return ('count', 'distinct')
      if isinstance(e.func, ast.Name) and e.func.id == 'range' and \
              len(e.args) == 1:
        v = self.ev(e.args[0])
        if v[0] == 'count':
          return ('ids', 'range-' + v[1])
      if d in (canon('numpy.asarray'), canon('numpy.array')) and e.args:
        return self.ev(e.args[0])
    return ('?',)

  def run(self, body):
    for s_ in body:
      if isinstance(s_, ast.Assign) and len(s_.targets) == 1:
        t = s_.targets[0]
        if isinstance(t, ast.Name):
          self.env[t.id] = self.ev(s_.value)
        elif isinstance(t, ast.Tuple) and isinstance(s_.value, ast.Tuple) and \
                len(t.elts) == len(s_.value.elts):
          for a, b in zip(t.elts, s_.value.elts):
            if isinstance(a, ast.Name):
              self.env[a.id] = self.ev(b)
        elif isinstance(t, ast.Subscript) and self.ev(t.value) == ('kept',):
          i, v = self.ev(t.slice), self.ev(s_.value)
          if i[0] == 'sel' and v[0] == 'centred' and v[1] == i[1]:
            self.centred.append((i[1], v[2], v[3], s_))
          else:
            self.other_writes.append(s_)
      elif isinstance(s_, ast.AugAssign) and \
              isinstance(s_.target, ast.Subscript) and \
              self.ev(s_.target.value) == ('kept',):
        i, v = self.ev(s_.target.slice), self.ev(s_.value)
        if isinstance(s_.op, ast.Sub) and i[0] == 'sel' and v[0] == 'mean':
          self.centred.append((i[1], v[1], v[2], s_))
        else:
          self.other_writes.append(s_)
      elif isinstance(s_, ast.For) and isinstance(s_.target, ast.Name):
        ids = self.ev(s_.iter)
        self.loops.append((ids, s_))
        self.env[s_.target.id] = ('id', s_.target.id)
        self.run(s_.body)
      elif isinstance(s_, ast.Return):
        if isinstance(s_.value, ast.Tuple) and len(s_.value.elts) == 2:
          self.ret = (self.ev(s_.value.elts[0]), self.ev(s_.value.elts[1]))
        else:
          self.ret = (('?',), ('?',))
      elif isinstance(s_, (ast.Expr, ast.Pass)):
        continue
      else:
        self.other_writes.append(s_)


def rule_rca(repo, rep):
  R = 'R-FORM:rca-chunk-centering'
  rep.rule(R, '_chunk_mean_centering subtracts from the rows of each chunk '
           'the mean (axis=0) of exactly those rows, and only rows with '
           'chunk label != -1 are kept')
  Rl = 'R-FORM:rca-every-chunk-centred'
  rep.rule(Rl, 'the centring loop visits every chunk id present: '
           'range(chunks.max() + 1) or a loop over the distinct ids')
  f = repo.get_func('rca._chunk_mean_centering')
  rep.analysed(f)
  cz = _Centering(repo, f)
  cz.run(f.node.body)
  key = 'rca._chunk_mean_centering'
  if cz.other_writes:
    rep.unknown(R, key + ':own-mean', site(f, cz.other_writes[0]),
                'statement %s is outside the evaluated forms'
                % ast.unparse(cz.other_writes[0]).split('\n')[0])
  elif not cz.centred:
    rep.unknown(R, key + ':own-mean', site(f), 'no centring statement '
                'recognised')
  else:
    bad = [x for x in cz.centred if x[0] != x[1] or x[2] != '0']
    if bad:
      c, c2, ax, node = bad[0]
      rep.refuted(R, key + ':own-mean', site(f, node), 'the rows of chunk '
                  '%s have the mean of %s taken over axis %s subtracted'
                  % (c, 'chunk ' + c2 if c != c2 else 'their own rows', ax))
    else:
      rep.derived(R, key + ':own-mean', site(f, cz.centred[0][3]))
  if cz.ret is None or cz.ret[1] != ('kept',):
    rep.unknown(R, key + ':returns-centred-rows', site(f), 'the second '
                'returned value is not the array of kept rows that was '
                'centred')
  else:
    rep.derived(R, key + ':returns-centred-rows', site(f))
  m = cz.ret[0] if cz.ret else ('?',)
  if m == ('known',):
    rep.derived(R, key + ':mask', site(f))
  elif m[0] == 'badmask':
    rep.refuted(R, key + ':mask', site(f), 'chunk mask is %s' % m[1])
  else:
    rep.unknown(R, key + ':mask', site(f), 'returned mask not recognised')
  if len(cz.loops) != 1:
    rep.unknown(Rl, key + ':loop', site(f), '%d loops' % len(cz.loops))
  else:
    ids, lp = cz.loops[0]
    if ids in (('ids', 'range-max+1'), ('ids', 'distinct')):
      rep.derived(Rl, key + ':loop', site(f, lp))
    elif ids == ('ids', 'range-distinct'):
      rep.refuted(Rl, key + ':loop', site(f, lp), 'the loop runs over '
                  'range(<number of distinct ids>): chunk ids with gaps '
                  '(e.g. {0, 3, 9}) are never centred')
    else:
      rep.unknown(Rl, key + ':loop', site(f, lp), 'loop over %s not '
                  'recognised' % ast.unparse(lp.iter))
  # the inner covariance is the average within-chunk covariance (1/N)
  Rb = 'R-FORM:rca-inner-covariance'
  rep.rule(Rb, 'RCA\'s inner covariance is np.cov(<chunk-centred data>, '
           'rowvar=0, bias=1): the average (1/N, not 1/(N-1)) within-chunk '
           'covariance')
  h = repo.get_func('rca.RCA.fit')
  ic = [n for n in ast.walk(h.node) if isinstance(n, ast.Call) and
        (repo.dotted(h.module, n.func) or '').endswith('numpy.cov')]
  centred = set()
  for n in ast.walk(h.node):
    if isinstance(n, ast.Assign) and isinstance(n.value, ast.Call) and \
            (repo.dotted(h.module, n.value.func) or '').endswith(
                '_chunk_mean_centering') and \
            isinstance(n.targets[0], ast.Tuple):
      centred.add(ast.unparse(n.targets[0].elts[1]))
  inner = [c_ for c_ in ic if c_.args and ast.unparse(c_.args[0]) in centred]
  if not inner:
    rep.unknown(Rb, 'rca.RCA.fit', site(h), 'covariance of the centred data '
                'not found')
  for c_ in inner:
    kw = {k.arg: ast.unparse(k.value) for k in c_.keywords}
    ok = kw.get('bias') in ('1', 'True') and 'ddof' not in kw
    rep.add(Rb, 'rca.RCA.fit:inner_cov', 'derived' if ok else 'refuted',
            site(h, c_), '' if ok else 'inner covariance computed with %s '
            '(documented: average within-chunk covariance, bias=1)' % kw)
  # inverse square root: spectral form V Diag(w^-1/2) V^T
  R2 = 'R-FORM:rca-inverse-square-root'
  rep.rule(R2, '_inv_sqrtm(x) is V Diag(w^(-1/2)) V^T for (w, V) = eigh(x)')
  g = repo.get_func('rca._inv_sqrtm')
  rep.analysed(g)
  Poly.ORTHO.clear()
  dom = AlgDomain()
  flow = Engine(repo, dom).run(g, args={'x': V(Poly.sym('S', 'mat',
                                                        symmetric=True))})
  wn, vn = 'w(S)', 'V(S)'
  Vp = Poly({(A(vn, 'mat'),): Fraction(1)}, 'mat')
  want = Vp.mul(Poly.diag(SExpr.base(('w', wn)).pow(Fraction(-1, 2))),
                'mat').mul(Vp.transpose(), 'mat')
  for (v, st, node) in flow.returns:
    if v.d is UNKNOWN:
      rep.unknown(R2, 'rca._inv_sqrtm', site(g, node), 'form not derivable')
    elif v.d == want:
      rep.derived(R2, 'rca._inv_sqrtm', site(g, node),
                  sample=dict(rule=R2, form=repr(v.d)))
    else:
      rep.refuted(R2, 'rca._inv_sqrtm', site(g, node),
                  '_inv_sqrtm normalises to %r, documented %r' % (v.d, want))


def rule_rca_whitening(repo, rep):
  """W C W^T = I for the stored transformation W and the inner covariance C,
  derived from the single identity isq(S) S isq(S) = I (the spectral form of
  _inv_sqrtm, certified by R-FORM:rca-inverse-square-root)."""
  R = 'R-FORM:rca-whitens-the-inner-covariance'
  rep.rule(R, 'on every path of RCA.fit the stored transformation has the '
           'form W = _inv_sqrtm(S) R with R C R^T = S for the inner '
           'covariance C (R = I, S = C without reduction; R = A^T, '
           'S = A^T C A with it), so that W C W^T = I')
  h = repo.get_func('rca.RCA.fit')
  rep.analysed(h)
  isq_args = {}
  counter = [0]

  def dn(e):
    d = repo.dotted(h.module, e)
    return canon(d) if d else None

  def opaque(kind, node):
    counter[0] += 1
    nm = 'o%d@%d' % (counter[0], getattr(node, 'lineno', 0))
    if kind == 'vec':
      return ('vec', SExpr.base(('w', nm)))
    return (kind, Poly.sym(nm, 'mat') if kind == 'mat' else None)

  def ev(e, env):
    if isinstance(e, ast.Name):
      return env.get(e.id) or ('?', None)
    if isinstance(e, ast.Attribute) and e.attr == 'T':
      k, v = ev(e.value, env)
      return (k, v.transpose()) if k == 'mat' else (k, v)
    if isinstance(e, ast.Attribute) and e.attr == 'real':
      return ev(e.value, env)
    if isinstance(e, ast.BinOp) and isinstance(e.op, ast.MatMult):
      (k1, a), (k2, b) = ev(e.left, env), ev(e.right, env)
      if k1 == k2 == 'mat':
        return ('mat', a.mul(b, 'mat'))
      return ('?', None)
    if isinstance(e, ast.BinOp) and isinstance(e.op, (ast.Div, ast.Mult)):
      (k1, a), (k2, b) = ev(e.left, env), ev(e.right, env)
      if k1 == 'mat' and k2 == 'vec':
        # column scaling: M * v = M Diag(v), M / v = M Diag(v)^-1
        sx = b if isinstance(e.op, ast.Mult) else b.pow(Fraction(-1))
        return ('mat', a.mul(Poly.diag(sx), 'mat'))
      return ('?', None)
    if isinstance(e, ast.Call):
      d = dn(e.func)
      args = list(e.args)
      if isinstance(e.func, ast.Attribute) and e.func.attr == 'dot' and \
              d is None and len(args) == 1:
        args = [e.func.value, args[0]]
        d = canon('numpy.dot')
      if d == canon('numpy.dot') and len(args) == 2:
        (k1, a), (k2, b) = ev(args[0], env), ev(args[1], env)
        if k1 == k2 == 'mat':
          return ('mat', a.mul(b, 'mat'))
        return ('?', None)
      if d in (canon('numpy.atleast_2d'), canon('numpy.asarray'),
               canon('numpy.array')) and len(args) == 1:
        return ev(args[0], env)
      if d == canon('numpy.sqrt') and len(args) == 1:
        k, v = ev(args[0], env)
        if k == 'vec':
          return ('vec', v.pow(Fraction(1, 2)))
        return ('?', None)
      if d == canon('numpy.cov'):
        counter[0] += 1
        return ('mat', Poly.sym('cov@%d' % e.lineno, 'mat', symmetric=True))
      if d in (canon('numpy.diag'), canon('numpy.diagonal')) and \
              len(args) == 1 and ev(args[0], env)[0] == 'mat':
        return opaque('vec', e)
      if d == canon('numpy.einsum') and args and \
              isinstance(args[0], ast.Constant) and \
              isinstance(args[0].value, str) and '->' in args[0].value:
        out = args[0].value.split('->')[1].strip()
        return opaque('vec' if len(out) == 1 else
                      'mat' if len(out) == 2 else '?', e)
      fn = repo.func_by_dotted(repo.dotted(h.module, e.func) or '')
      if fn is not None and fn.key == 'rca._inv_sqrtm' and len(args) == 1:
        k, v = ev(args[0], env)
        if k == 'mat':
          nm = 'isq[%r]' % (v,)
          isq_args[nm] = v
          return ('mat', Poly.sym(nm, 'mat', symmetric=True))
        return ('?', None)
      if isinstance(e.func, ast.Attribute) and e.func.attr == 'diagonal' \
              and ev(e.func.value, env)[0] == 'mat':
        return opaque('vec', e)
    if isinstance(e, ast.Subscript):
      # a selection of columns / rows of a matrix: an unconstrained matrix
      return opaque('mat', e)
    if isinstance(e, ast.Call):
      # result of a call outside the table: an unconstrained matrix whose
      # origin is unknown (never the basis of a refutation)
      counter[0] += 1
      return ('mat', Poly.sym('unk%d@%d' % (counter[0], e.lineno), 'mat'))
    return ('?', None)

  stores = []

  def walk(body, env, cov_sym):
    for i, st in enumerate(body):
      if isinstance(st, ast.If):
        for br in (st.body, st.orelse):
          walk(list(br) + list(body[i + 1:]), dict(env), cov_sym)
        return
      if isinstance(st, ast.Assign) and len(st.targets) == 1:
        tg = st.targets[0]
        if isinstance(tg, ast.Name):
          val = ev(st.value, env)
          env[tg.id] = val
          if cov_sym[0] is None and isinstance(st.value, ast.Call) and \
                  any(dn(c.func) == canon('numpy.cov') and c.args and
                      ast.unparse(c.args[0]) in centred
                      for c in ast.walk(st.value) if isinstance(c, ast.Call)):
            cov_sym = [val]
        elif isinstance(tg, ast.Tuple):
          for el in tg.elts:
            if isinstance(el, ast.Name):
              env[el.id] = opaque('mat', st)
        elif ast.unparse(tg) == 'self.components_':
          stores.append((st, ev(st.value, env), cov_sym[0]))
      elif isinstance(st, ast.Return):
        return

  centred = set()
  for n in ast.walk(h.node):
    if isinstance(n, ast.Assign) and isinstance(n.value, ast.Call) and \
            (repo.dotted(h.module, n.value.func) or '').endswith(
                '_chunk_mean_centering') and \
            isinstance(n.targets[0], ast.Tuple):
      centred.add(ast.unparse(n.targets[0].elts[1]))
  walk(h.node.body, {}, [None])
  if not stores:
    rep.unknown(R, 'rca.RCA.fit', site(h), 'no store of components_ found')
  for k_, (st, (kind, W), C) in enumerate(stores):
    key = 'rca.RCA.fit:store%d' % k_
    if C is None or C[0] != 'mat':
      rep.unknown(R, key, site(h, st), 'inner covariance not identified')
      continue
    if kind != 'mat':
      rep.unknown(R, key, site(h, st), 'stored expression %s is outside the '
                  'matrix forms evaluated' % ast.unparse(st.value))
      continue
    T = W.mul(C[1], 'mat').mul(W.transpose(), 'mat')
    ok = False
    if len(T.terms) == 1:
      (m, c), = T.terms.items()
      if c == 1 and len(m) >= 3 and m[0] == m[-1] and m[0][0] == 's' and \
              m[0][1] in isq_args:
        ok = Poly({tuple(m[1:-1]): Fraction(1)}, 'mat') == isq_args[m[0][1]]
    if ok:
      rep.derived(R, key, site(h, st), sample=dict(rule=R, W=repr(W)))
    elif 'unk' in repr(W):
      rep.unknown(R, key, site(h, st), 'W = %r involves the result of a call '
                  'outside the evaluated forms' % (W,))
    else:
      rep.refuted(R, key, site(h, st), 'W C W^T = %r does not reduce to the '
                  'identity by isq(S) S isq(S) = I (W = %r)' % (T, W))
  rep.floor('RCA stores of components_', len(stores), 2)


def rule_lfda(repo, rep):
  R = 'R-FORM:lfda-ordering-and-embedding'
  rep.rule(R, 'LFDA keeps the eigenvectors in order of decreasing eigenvalue '
           '(argsort of the negated values, prefix :dim), stores vecs.T, and '
           'handles exactly the three documented embedding_type values')
  c = repo.get_class('LFDA')
  f = repo.resolve_method(c, 'fit')
  rep.analysed(f)
  def argsort_chain(e):
    """(argsort call, [slices outermost last]) for call[...][...]"""
    sl = []
    while isinstance(e, ast.Subscript):
      sl.append(e.slice)
      e = e.value
    if isinstance(e, ast.Call) and (repo.dotted(f.module, e.func) or
                                    '').endswith('argsort'):
      return e, list(reversed(sl))
    return None, None
  orders = []
  for n in ast.walk(f.node):
    if isinstance(n, ast.Assign) and isinstance(n.targets[0], ast.Name):
      call, sl = argsort_chain(n.value)
      if call is not None and sl:
        orders.append((n, call, sl))
  if not orders:
    rep.unknown(R, 'LFDA.fit:order', site(f), 'ordering statement not found')
  for (n, call, sl) in orders:
    arg = call.args[0]
    desc = isinstance(arg, ast.UnaryOp) and isinstance(arg.op, ast.USub)
    nrev = 0
    prefix = False
    bad = False
    for s_ in sl:
      if isinstance(s_, ast.Slice) and s_.lower is None and \
              s_.upper is None and s_.step is not None and \
              ast.unparse(s_.step) == '-1':
        if prefix:
          bad = True          # reversing after truncation keeps the smallest
        nrev += 1
      elif isinstance(s_, ast.Slice) and s_.lower is None and \
              s_.step is None and s_.upper is not None:
        prefix = True
      else:
        bad = True
    decreasing = (desc != (nrev % 2 == 1))
    if bad:
      rep.unknown(R, 'LFDA.fit:order', site(f, n), 'unrecognised selection '
                  '%s' % ast.unparse(n.value))
    elif decreasing and prefix:
      rep.derived(R, 'LFDA.fit:order', site(f, n))
    else:
      rep.refuted(R, 'LFDA.fit:order', site(f, n), 'eigenvalues are not '
                  'taken in decreasing order: %s' % ast.unparse(n.value))
  stores = [n for n in ast.walk(f.node) if isinstance(n, ast.Assign) and
            ast.unparse(n.targets[0]) == 'self.components_']
  for n in stores:
    if isinstance(n.value, ast.Attribute) and n.value.attr == 'T':
      rep.derived(R, 'LFDA.fit:components', site(f, n))
    else:
      rep.refuted(R, 'LFDA.fit:components', site(f, n), 'components_ = %s '
                  '(eigenvectors are the columns of vecs)'
                  % ast.unparse(n.value))
  # embedding table
  init = repo.resolve_method(c, '__init__')
  accepted = set()
  for n in ast.walk(init.node):
    if isinstance(n, ast.Compare) and isinstance(n.ops[0], (ast.NotIn,
                                                            ast.In)) and \
            ast.unparse(n.left) == 'embedding_type':
      for e in n.comparators[0].elts:
        accepted.add(e.value)
  handled = set()
  for n in ast.walk(f.node):
    if isinstance(n, ast.Compare) and isinstance(n.ops[0], ast.Eq) and \
            ast.unparse(n.left) == 'self.embedding_type' and \
            isinstance(n.comparators[0], ast.Constant):
      handled.add(n.comparators[0].value)
  doc = {'weighted', 'orthonormalized', 'plain'}
  if accepted == doc and handled <= doc and {'weighted',
                                             'orthonormalized'} <= handled:
    rep.derived(R, 'LFDA:embedding_type-table', site(init))
  else:
    rep.refuted(R, 'LFDA:embedding_type-table', site(init),
                'constructor accepts %s, fit handles %s, documented %s'
                % (sorted(accepted), sorted(handled), sorted(doc)))
  # weighted: scale by sqrt(vals); orthonormalized: qr
  for n in ast.walk(f.node):
    if isinstance(n, ast.If) and isinstance(n.test, ast.Compare) and \
            ast.unparse(n.test.left) == 'self.embedding_type':
      node = n
      while True:
        lit = node.test.comparators[0].value
        body = ' '.join(ast.unparse(s) for s in node.body)
        if lit == 'weighted':
          # names by role: eigenvectors = what is stored transposed,
          # eigenvalues = what was arg-sorted
          vecn = [ast.unparse(n_.value.value) for n_ in stores
                  if isinstance(n_.value, ast.Attribute)]
          valn = []
          for (_n, call_, _sl) in orders:
            a_ = call_.args[0]
            if isinstance(a_, ast.UnaryOp):
              a_ = a_.operand
            valn.append(ast.unparse(a_))
          ok = False
          for s_ in node.body:
            if isinstance(s_, ast.AugAssign) and isinstance(s_.op, ast.Mult) \
                    and ast.unparse(s_.target) in vecn and \
                    ast.unparse(s_.value) in ['np.sqrt(%s)' % v for v in valn]:
              ok = True
            if isinstance(s_, ast.Assign) and \
                    ast.unparse(s_.targets[0]) in vecn and \
                    ast.unparse(s_.value) in [
                        '%s * np.sqrt(%s)' % (a, v) for a in vecn
                        for v in valn] + ['np.sqrt(%s) * %s' % (v, a)
                                          for a in vecn for v in valn]:
              ok = True
          rep.add(R, 'LFDA.fit:weighted', 'derived' if ok else 'refuted',
                  site(f, node), '' if ok else 'weighted embedding: ' + body)
          # the eigenvalues that scale the vectors are re-ordered with them
          top = n
          if ok and top in f.node.body:
            def strip(e):
              while True:
                if isinstance(e, ast.Attribute) and e.attr == 'real':
                  e = e.value
                elif isinstance(e, ast.Call) and ast.unparse(e.func) in (
                        'np.real', 'np.sqrt', 'np.abs') and len(e.args) == 1:
                  e = e.args[0]
                else:
                  return e
            uv = [strip(astutil.unfold(ast.parse(v, mode='eval').body,
                                       f.node.body, top)) for v in valn]
            uw = [astutil.unfold(ast.parse(v, mode='eval').body,
                                 f.node.body, top) for v in vecn]
            selv = [ast.unparse(x.slice) for x in uv
                    if isinstance(x, ast.Subscript)]
            selw = [ast.unparse(x.slice.elts[1]) for x in uw
                    if isinstance(x, ast.Subscript) and
                    isinstance(x.slice, ast.Tuple) and
                    len(x.slice.elts) == 2]
            if selw and selv and set(selv) == set(selw):
              rep.derived(R, 'LFDA.fit:weighted-values-follow-vectors',
                          site(f, node))
            elif selw and not selv:
              rep.refuted(R, 'LFDA.fit:weighted-values-follow-vectors',
                          site(f, node), 'the eigenvectors are re-ordered '
                          'by %s but the eigenvalues scaling them are %s'
                          % (selw[0], ', '.join(ast.unparse(x) for x in uv)))
            elif selw and selv:
              rep.refuted(R, 'LFDA.fit:weighted-values-follow-vectors',
                          site(f, node), 'eigenvectors selected by %s, '
                          'eigenvalues by %s' % (selw[0], selv[0]))
            else:
              rep.unknown(R, 'LFDA.fit:weighted-values-follow-vectors',
                          site(f, node), 're-ordering of the eigenvectors '
                          'not recognised')
        if lit == 'orthonormalized':
          ok = 'qr(' in body
          rep.add(R, 'LFDA.fit:orthonormalized', 'derived' if ok else
                  'refuted', site(f, node), '' if ok else body)
        if len(node.orelse) == 1 and isinstance(node.orelse[0], ast.If):
          node = node.orelse[0]
        else:
          break
      break


def rule_lfda_qr_order(repo, rep):
  R = 'R-FORM:lfda-orthonormalisation-after-ordering'
  rep.rule(R, 'Gram-Schmidt / QR keeps the span of the first j columns for '
           'every j, so it must be given the eigenvectors already selected '
           'in decreasing order of eigenvalue: the argument of every qr '
           'call in LFDA.fit resolves to <vectors>[:, <decreasing prefix '
           'selection>]')
  c = repo.get_class('LFDA')
  f = repo.resolve_method(c, 'fit')
  body = f.node.body
  pm = astutil.parents(f.node)
  n = 0
  for call in astutil.calls_in(f.node):
    d = repo.dotted(f.module, call.func) or ''
    if not (d.endswith('linalg.qr') and call.args):
      continue
    n += 1
    top = astutil.stmt_of(f.node, call)
    while top not in body and top in pm:
      top = pm[top]
    arg = astutil.unfold(call.args[0], body, top) if top in body \
        else call.args[0]
    key = 'LFDA.fit:qr-argument'
    sel = None
    if isinstance(arg, ast.Subscript) and isinstance(arg.slice, ast.Tuple) \
            and len(arg.slice.elts) == 2:
      sel = _selection_kind(repo, f, arg.slice.elts[1])
    if sel is not None and sel[0] == 'largest':
      rep.derived(R, key, site(f, call))
    elif sel is not None:
      rep.refuted(R, key, site(f, call), 'QR is applied to the eigenvectors '
                  'of the smallest eigenvalues')
    elif isinstance(arg, ast.Name) or (
            isinstance(arg, ast.Subscript) and isinstance(
                arg.value, ast.Call)) or isinstance(arg, ast.Call):
      # the raw solver output (a name bound by tuple assignment, or a call)
      rep.refuted(R, key, site(f, call), 'QR is applied to %s before the '
                  'eigenvectors are put in decreasing order of eigenvalue: '
                  'the first orthonormal direction is then not the leading '
                  'eigenvector' % ast.unparse(arg)[:60])
    else:
      rep.unknown(R, key, site(f, call), 'argument %s'
                  % ast.unparse(arg)[:60])
  if n == 0:
    rep.unknown(R, 'LFDA.fit:qr-argument', site(f), 'no qr call found')


# ------------------------------------------------ LFDA scatter accumulation
from ..ratfunc import Rat, LinM, eval_expr


def _lfda_roles(repo):
  c = repo.get_class('LFDA')
  f0 = repo.resolve_method(c, 'fit')
  # roles are discovered from definitions and uses, then the body is matched
  # under canonical names (tSb, tSw, n, d, nc, Xc, G, A)
  roles = {}
  for n_ in ast.walk(f0.node):
    if isinstance(n_, ast.Call) and (repo.dotted(f0.module, n_.func) or
                                     '').endswith('lfda._eigh') and \
            len(n_.args) >= 2 and all(isinstance(a, ast.Name)
                                      for a in n_.args[:2]):
      roles[n_.args[0].id] = 'tSb'
      roles[n_.args[1].id] = 'tSw'
    if isinstance(n_, ast.Assign) and isinstance(n_.targets[0], ast.Tuple) \
            and ast.unparse(n_.value) == 'X.shape' and \
            len(n_.targets[0].elts) == 2 and \
            all(isinstance(e, ast.Name) for e in n_.targets[0].elts):
      roles[n_.targets[0].elts[0].id] = 'n'
      roles[n_.targets[0].elts[1].id] = 'd'
  sb = [k for k, v in roles.items() if v in ('tSb', 'tSw')]
  loops0 = [n for n in ast.walk(f0.node) if isinstance(n, ast.For) and
            any(isinstance(s_, ast.AugAssign) and
                ast.unparse(s_.target) in sb for s_ in n.body)]
  if len(loops0) == 1:
    for s_ in loops0[0].body:
      if isinstance(s_, ast.Assign) and isinstance(s_.targets[0], ast.Name):
        v_ = s_.value
        if isinstance(v_, ast.Subscript) and ast.unparse(v_.value) == 'X':
          roles[s_.targets[0].id] = 'Xc'
    xc = [k for k, v in roles.items() if v == 'Xc']
    incs = [s_ for s_ in loops0[0].body if isinstance(s_, ast.AugAssign) and
            ast.unparse(s_.target) in sb]
    for s_ in loops0[0].body:
      if isinstance(s_, ast.Assign) and isinstance(s_.targets[0], ast.Name) \
              and xc and ast.unparse(s_.value) in ('%s.shape[0]' % xc[0],
                                                   'len(%s)' % xc[0]):
        roles[s_.targets[0].id] = 'nc'
    if len(incs) >= 2:
      common = None
      for s_ in incs:
        nm = set(x.id for x in ast.walk(s_.value) if isinstance(x, ast.Name))
        common = nm if common is None else common & nm
      common = [x for x in (common or ()) if x not in roles and x != 'np' and
                x not in ('X',)]
      if len(common) == 1:
        roles[common[0]] = 'G'
        gd = [s_ for s_ in loops0[0].body if isinstance(s_, ast.Assign) and
              ast.unparse(s_.targets[0]) == common[0]]
    # the affinity matrix: the loop-local matrix whose row / column sums are
    # taken
    assigned = set(s_.targets[0].id for s_ in ast.walk(loops0[0])
                   if isinstance(s_, ast.Assign) and
                   isinstance(s_.targets[0], ast.Name))
    for x in ast.walk(loops0[0]):
      if isinstance(x, ast.Call) and isinstance(x.func, ast.Attribute) \
              and x.func.attr == 'sum' and \
              isinstance(x.func.value, ast.Name) and \
              x.func.value.id in assigned and \
              x.func.value.id not in roles:
        roles[x.func.value.id] = 'A'
  return f0, roles


def rule_lfda_scatter(repo, rep):
  R = 'R-FORM:lfda-scatter-accumulation'
  rep.rule(R, 'the statements accumulating LFDA\'s scatter matrices, '
           'evaluated as linear combinations of the atoms G_c, Xc^T Xc, '
           's_c s_c^T, s s^T with rational coefficients in n and n_c, equal '
           'the pairwise-defined local scatters: S_w = sum_c G_c / n_c and '
           'S_b = sum_c [G_c / n + (1 - n_c / n) Xc^T Xc + s_c s_c^T / n] - '
           's s^T / n - S_w (reference: the algebraic expansion of '
           '1/2 sum_ij W_ij (x_i - x_j)(x_i - x_j)^T)')
  f0, roles = _lfda_roles(repo)
  f = astutil.role_view(f0, roles)
  if f is None:
    rep.unknown(R, 'LFDA.fit', site(f0), 'roles %s cannot be given canonical '
                'names without conflating variables' % roles)
    return
  loops = [n for n in ast.walk(f.node) if isinstance(n, ast.For) and
           any(isinstance(s, ast.AugAssign) and
               ast.unparse(s.target) in ('tSb', 'tSw') for s in n.body)]
  if len(loops) != 1:
    rep.unknown(R, 'LFDA.fit', site(f0), 'class loop not recognised')
    return
  loop = loops[0]
  skips = [b for b in ast.walk(loop) if isinstance(b, (ast.Continue,
                                                        ast.Break))]
  if skips:
    rep.refuted(R, 'LFDA.fit:every-class-contributes', site(f, skips[0]),
                'the class loop skips classes under %s: their points still '
                'count in s s^T / n, so the scatters are no longer the '
                'pairwise-defined ones' % astutil.path_condition(loop,
                                                                 skips[0]))
  else:
    rep.derived(R, 'LFDA.fit:every-class-contributes', site(f, loop))
  # n and nc must be the sample counts
  defs = {}
  for n_ in ast.walk(f.node):
    if isinstance(n_, ast.Assign):
      defs[ast.unparse(n_.targets[0])] = ast.unparse(n_.value)
  ok_counts = (defs.get('(n, d)') or defs.get('n, d')) == 'X.shape' and \
      defs.get('nc') in ('Xc.shape[0]', 'len(Xc)')
  if not ok_counts:
    rep.unknown(R, 'LFDA.fit:counts', site(f), 'n / nc are not the sample '
                'counts (n, d = X.shape; nc = Xc.shape[0])')
    return
  # symbolic evaluation in the algebra of words over Xc, A (symmetric), the
  # ones vector and Diag(.), with coefficients rational in n and n_c
  from ..ncalg import NC, NCEval
  from ..ratfunc import Rat

  def canon_of(e):
    d = repo.dotted(f.module, e)
    return canon(d) if d else None

  def helper(call):
    g = repo.func_by_dotted(repo.dotted(f.module, call.func) or '')
    if g is None or g.cls is not None:
      return None
    return g.params(), g.node.body
  one = Rat.const(1)
  n_, nc_ = Rat.sym('n'), Rat.sym('nc')
  Xc, Am, Xall = NC.atom('Xc'), NC.atom('A', symmetric=True), NC.atom('X')
  ev = NCEval({'Xc': Xc, 'A': Am, 'X': Xall}, {'n': n_, 'nc': nc_},
              canon_of, helper)
  D = Am.mul(NC.ones())
  from ..ncalg import _diag
  Gw = Xc.T().mul(_diag(D)).mul(Xc).add(Xc.T().mul(Am).mul(Xc), -1)
  ss_c = Xc.T().mul(NC.ones()).mul(NC.ones().T()).mul(Xc)
  ss_all = Xall.T().mul(NC.ones()).mul(NC.ones().T()).mul(Xall)
  want_b = Gw.scale(one / n_).add(
      Xc.T().mul(Xc).scale(one - nc_ / n_)).add(ss_c.scale(one / n_))
  want_w = Gw.scale(one / nc_)
  # statements of the class loop in order: temporaries, then the increments
  inc = {}
  for s_ in loop.body:
    if isinstance(s_, ast.Assign) and len(s_.targets) == 1 and \
            isinstance(s_.targets[0], ast.Name) and \
            s_.targets[0].id not in ('Xc', 'A', 'nc'):
      v = ev.ev(s_.value)
      if isinstance(v, NC):
        ev.mats[s_.targets[0].id] = v
      elif isinstance(v, Rat):
        ev.scalars[s_.targets[0].id] = v
      else:
        ev.mats.pop(s_.targets[0].id, None)
    elif isinstance(s_, ast.AugAssign) and isinstance(s_.op, ast.Add) and \
            ast.unparse(s_.target) in ('tSb', 'tSw'):
      inc[ast.unparse(s_.target)] = (ev.ev(s_.value), s_)
    elif isinstance(s_, ast.AugAssign) and \
            isinstance(s_.op, (ast.Add, ast.Sub)) and \
            isinstance(s_.target, ast.Subscript) and \
            isinstance(s_.target.value, ast.Name) and \
            s_.target.value.id in ev.mats and \
            isinstance(s_.target.slice, ast.Call) and \
            canon_of(s_.target.slice.func) == canon('numpy.diag_indices'):
      # M[np.diag_indices(k)] += v  is  M + Diag(v)
      v = ev.ev(s_.value)
      nm = s_.target.value.id
      if isinstance(v, NC) and v.kind in ('col', 'row'):
        dv = _diag(v if v.kind == 'col' else v.T())
        ev.mats[nm] = ev.mats[nm].add(dv, 1 if isinstance(s_.op, ast.Add)
                                      else -1)
      else:
        ev.mats.pop(nm, None)
    else:
      # any other statement that may change a temporary (in-place update,
      # element store, call taking it as an argument) makes its value
      # unknown to this evaluation
      for x in ast.walk(s_):
        tgt = None
        if isinstance(x, ast.AugAssign):
          tgt = x.target
        elif isinstance(x, ast.Assign):
          for t_ in x.targets:
            for y_ in ast.walk(t_):
              if isinstance(y_, ast.Name) and y_.id not in ('Xc', 'A', 'nc'):
                ev.mats.pop(y_.id, None)
                ev.scalars.pop(y_.id, None)
        elif isinstance(x, ast.Call) and isinstance(s_, ast.Expr):
          for y_ in ast.walk(x):
            if isinstance(y_, ast.Name) and y_.id in ev.mats and \
                    y_.id not in ('Xc', 'A', 'X'):
              ev.mats.pop(y_.id, None)
        if tgt is not None:
          for y_ in ast.walk(tgt):
            if isinstance(y_, ast.Name):
              ev.mats.pop(y_.id, None)
              ev.scalars.pop(y_.id, None)
  for name, want in (('tSb', want_b), ('tSw', want_w)):
    if name not in inc or not isinstance(inc[name][0], NC):
      rep.unknown(R, 'LFDA.fit:%s-increment' % name, site(f),
                  'per-class increment not derivable')
    elif inc[name][0] == want:
      rep.derived(R, 'LFDA.fit:%s-increment' % name, site(f, inc[name][1]),
                  sample=dict(rule=R, statement=ast.unparse(inc[name][1]),
                              normal_form=repr(inc[name][0])))
    else:
      rep.refuted(R, 'LFDA.fit:%s-increment' % name, site(f, inc[name][1]),
                  'per-class increment of %s is %r, the pairwise definition '
                  'gives %r' % (name, inc[name][0], want))
  # the adjustment after the loop, in terms of the accumulated sums
  body = f.node.body
  post = [s_ for s_ in body if isinstance(s_, (ast.AugAssign, ast.Assign)) and
          getattr(s_, 'lineno', 0) > loop.end_lineno and
          ast.unparse(s_.target if isinstance(s_, ast.AugAssign)
                      else s_.targets[0]) == 'tSb' and
          'tSw' in [x.id for x in ast.walk(s_.value)
                    if isinstance(x, ast.Name)] and
          'tSw.T' not in ast.unparse(s_.value)]
  if not post:
    rep.unknown(R, 'LFDA.fit:tSb-final', site(f), 'final adjustment of tSb '
                'not found')
    return
  s_ = post[0]
  Sw, SbAcc = NC.atom('SwAcc'), NC.atom('SbAcc')
  ev2 = NCEval({'X': Xall, 'tSw': Sw, 'tSb': SbAcc}, {'n': n_},
               canon_of, helper)
  # temporaries defined between the loop and the adjustment
  for t_ in body:
    if isinstance(t_, ast.Assign) and len(t_.targets) == 1 and \
            isinstance(t_.targets[0], ast.Name) and \
            loop.end_lineno < t_.lineno < s_.lineno and \
            t_.targets[0].id not in ('tSb', 'tSw'):
      v = ev2.ev(t_.value)
      if isinstance(v, NC):
        ev2.mats[t_.targets[0].id] = v
  v = ev2.ev(s_.value)
  if not isinstance(v, NC):
    rep.unknown(R, 'LFDA.fit:tSb-final', site(f, s_), 'not derivable')
    return
  if isinstance(s_, ast.AugAssign):
    total = SbAcc.add(v, 1 if isinstance(s_.op, ast.Add) else -1)
  else:
    total = v
  want = SbAcc.add(ss_all.scale(one / n_), -1).add(Sw, -1)
  if total == want:
    rep.derived(R, 'LFDA.fit:tSb-final', site(f, s_))
  else:
    rep.refuted(R, 'LFDA.fit:tSb-final', site(f, s_), 'the between-class '
                'scatter is finished as %r, the pairwise definition gives %r '
                '(statement: %s)' % (total, want, ast.unparse(s_)))


# ------------------------------------------------ LFDA affinity (local scaling)
def _flat_body(stmts):
  """statements with `with` blocks opened (they do not change data flow)"""
  out = []
  for s_ in stmts:
    if isinstance(s_, ast.With):
      out.extend(_flat_body(s_.body))
    else:
      out.append(s_)
  return out


def _upward_exposed(loop):
  """names read in a loop body before being (re)assigned there and also
  assigned in the body: their value is carried from one iteration to the
  next"""
  assigned = set()
  carried = {}

  def reads(e):
    return [x for x in ast.walk(e) if isinstance(x, ast.Name) and
            isinstance(x.ctx, ast.Load)]
  body_assigned = set()
  for s_ in ast.walk(loop):
    if isinstance(s_, (ast.Assign, ast.AugAssign)):
      tg = s_.targets if isinstance(s_, ast.Assign) else [s_.target]
      for t in tg:
        for x in ast.walk(t):
          if isinstance(x, ast.Name) and isinstance(x.ctx, ast.Store):
            body_assigned.add(x.id)
  for s_ in _flat_body(loop.body):
    if isinstance(s_, ast.Assign):
      for x in reads(s_.value):
        if x.id not in assigned and x.id in body_assigned:
          carried.setdefault(x.id, s_)
      for t in s_.targets:
        for x in ast.walk(t):
          if isinstance(x, ast.Name) and isinstance(x.ctx, ast.Store):
            assigned.add(x.id)
    elif isinstance(s_, ast.AugAssign):
      pass          # accumulators are carried by design
    else:
      for x in reads(s_):
        if x.id not in assigned and x.id in body_assigned:
          carried.setdefault(x.id, s_)
  return carried


def rule_lfda_affinity(repo, rep):
  R = 'R-FORM:lfda-local-scaling-affinity'
  rep.rule(R, 'in LFDA\'s class loop the rows of one class are selected '
           '(labels == class index), D = their squared Euclidean distance '
           'matrix, sigma = sqrt of an order statistic of D at a rank clipped '
           'to the class size (per class: the clipped rank is not carried to '
           'the next class), the affinity is exp(-D / (sigma_i sigma_j)) with '
           'the 0/0 entries set to 0 - decided by evaluating the loop body in '
           'a small algebra of powers of distances')
  f0, roles = _lfda_roles(repo)
  f = astutil.role_view(f0, roles)
  if f is None:
    rep.unknown(R, 'LFDA.fit', site(f0), 'roles not assignable')
    return
  rep.analysed(f0)
  loops = [n for n in ast.walk(f.node) if isinstance(n, ast.For) and
           any(isinstance(s, ast.AugAssign) and
               ast.unparse(s.target) in ('tSb', 'tSw') for s in n.body)]
  if len(loops) != 1 or not isinstance(loops[0].target, ast.Name):
    rep.unknown(R, 'LFDA.fit', site(f0), 'class loop not recognised')
    return
  loop = loops[0]

  def dn(e):
    d = repo.dotted(f.module, e)
    return canon(d) if d else None

  # labels: (U, y) = np.unique(y0, return_inverse=True); loop over
  # range(len(U)) compares with the inverse indices
  lab_ok = None
  env = {'X': ('X',)}
  uniq = None
  for s_ in f.node.body:
    if s_ is loop:
      break
    if isinstance(s_, ast.Assign) and isinstance(s_.value, ast.Call) and \
            dn(s_.value.func) == canon('numpy.unique'):
      kw = {k.arg: ast.unparse(k.value) for k in s_.value.keywords}
      tg = s_.targets[0]
      if isinstance(tg, ast.Tuple) and len(tg.elts) == 2 and \
              kw.get('return_inverse') == 'True' and len(kw) == 1:
        uniq = (ast.unparse(tg.elts[0]), ast.unparse(tg.elts[1]))
        env[uniq[1]] = ('y',)
      elif isinstance(tg, ast.Name) and not kw:
        uniq = (tg.id, None)
  it = loop.iter
  cvar = loop.target.id
  if uniq and uniq[1] and isinstance(it, ast.Call) and \
          ast.unparse(it.func) == 'range' and len(it.args) == 1:
    cnt = astutil.unfold(it.args[0], f.node.body, loop.lineno)
    txt = ast.unparse(cnt)
    if txt in ('len(%s)' % uniq[0], '%s.shape[0]' % uniq[0],
               '%s.size' % uniq[0]):
      lab_ok = True
      env[cvar] = ('c',)
    else:
      lab_ok = False
      why = 'the loop runs over range(%s), not over the %s classes' % (
          txt, uniq[0])
  if lab_ok is None:
    rep.unknown(R, 'LFDA.fit:class-loop', site(f, loop), 'labels / class '
                'loop idiom not recognised (expected np.unique(y, '
                'return_inverse=True) and range(number of classes))')
    return
  if not lab_ok:
    rep.refuted(R, 'LFDA.fit:class-loop', site(f, loop), why)
    return
  rep.derived(R, 'LFDA.fit:class-loop', site(f, loop))

  def num(e):
    try:
      v = ast.literal_eval(e)
      return v if isinstance(v, (int, float)) and not isinstance(v, bool) \
          else None
    except Exception:
      return None

  def scale_pow(v, c):
    if v[0] in ('D', 'kth', 'LS', 'order'):
      return (v[0], v[1] * Fraction(c)) + tuple(v[2:])
    return ('?', 'power')

  def mkq(sgn, p, q):
    return ('Q', sgn, Fraction(p), Fraction(q))

  def asq(v):
    if v[0] == 'Q':
      return v
    if v[0] == 'D':
      return mkq(1, v[1], 0)
    if v[0] == 'LS':
      return mkq(1, 0, -v[1])
    return None

  def ev(e):
    if isinstance(e, ast.Name):
      return env.get(e.id, ('?', e.id))
    n_ = num(e)
    if n_ is not None:
      return ('num', n_)
    if isinstance(e, ast.Constant):
      return ('const', e.value)
    if isinstance(e, ast.Compare) and len(e.ops) == 1:
      l, r = ev(e.left), ev(e.comparators[0])
      op = e.ops[0]
      if {l, r} == {('y',), ('c',)} and isinstance(op, (ast.Eq, ast.NotEq)):
        return ('sel', isinstance(op, ast.Eq))
      for a, b, flip in ((l, r, False), (r, l, True)):
        if a[0] in ('LS', 'kth') and b == ('num', 0):
          k_ = type(op)
          if flip:
            k_ = {ast.Lt: ast.Gt, ast.Gt: ast.Lt, ast.LtE: ast.GtE,
                  ast.GtE: ast.LtE}.get(k_, k_)
          if k_ in (ast.Eq, ast.LtE):
            return ('zs', True)        # zero scale
          if k_ in (ast.NotEq, ast.Gt):
            return ('zs', False)       # positive scale
      return ('?', 'compare')
    if isinstance(e, ast.UnaryOp) and isinstance(e.op, ast.USub):
      v = asq(ev(e.operand))
      return mkq(-v[1], v[2], v[3]) if v else ('?', 'neg')
    if isinstance(e, ast.UnaryOp) and isinstance(e.op, (ast.Invert, ast.Not)):
      v = ev(e.operand)
      if v[0] in ('zs', 'sel', 'bad'):
        return (v[0], not v[1])
      return ('?', 'invert')
    if isinstance(e, ast.BinOp):
      l, r = ev(e.left), ev(e.right)
      if isinstance(e.op, ast.Pow) and r[0] == 'num':
        return scale_pow(l, r[1])
      if isinstance(e.op, (ast.Add, ast.Sub)):
        if l == ('nc',) and r[0] == 'num':
          return ('ncm', r[1] if isinstance(e.op, ast.Sub) else -r[1])
        if l[0] == 'ncm' and r[0] == 'num':
          return ('ncm', l[1] + (r[1] if isinstance(e.op, ast.Sub)
                                 else -r[1]))
        return ('?', 'sum')
      if isinstance(e.op, (ast.Div, ast.Mult)):
        # outer product spelled by broadcasting
        if isinstance(e.op, ast.Mult) and \
                {l[0], r[0]} == {'kthcol', 'kthrow'} and l[1:] == r[1:]:
          return ('LS', l[1])
        a, b = asq(l), asq(r)
        if a and b:
          if isinstance(e.op, ast.Div):
            return mkq(a[1] * b[1], a[2] - b[2], a[3] - b[3])
          return mkq(a[1] * b[1], a[2] + b[2], a[3] + b[3])
        return ('?', 'product')
      return ('?', 'binop')
    if isinstance(e, ast.Subscript):
      b = ev(e.value)
      parts = e.slice.elts if isinstance(e.slice, ast.Tuple) else [e.slice]
      full = lambda p: isinstance(p, ast.Slice) and p.lower is None and \
          p.upper is None and p.step is None
      if b == ('X',):
        pv = ev(parts[0])
        if pv[0] == 'sel' and all(full(p) for p in parts[1:]):
          return ('Xc',) if pv[1] else ('Xrest',)
        return ('?', 'rows')
      if b[0] == 'sel' and num(e.slice) == 0:
        return b                      # np.where(mask)[0]
      if b[0] == 'order':
        picks = [p for p in parts if not full(p)]
        if len(picks) == 1 and ev(picks[0]) == b[2]:
          return ('kth', b[1], b[2])
        return ('?', 'rank selection')
      if b[0] == 'kth':
        st = [ast.unparse(p) for p in parts]
        if st in (['slice(None, None, None)', 'None'], [':', 'None']) or \
                (len(parts) == 2 and full(parts[0]) and
                 ast.unparse(parts[1]) in ('None', 'np.newaxis')):
          return ('kthcol',) + b[1:]
        if len(parts) == 2 and full(parts[1]) and \
                ast.unparse(parts[0]) in ('None', 'np.newaxis'):
          return ('kthrow',) + b[1:]
      return ('?', 'subscript')
    if isinstance(e, ast.Attribute) and e.attr == 'T':
      b = ev(e.value)
      return b if b[0] in ('D', 'LS', 'A', 'Q') else ('?', 'T')
    if isinstance(e, ast.Call):
      d = dn(e.func)
      kw = {k.arg: k.value for k in e.keywords if k.arg}
      args = list(e.args)
      if d is None and isinstance(e.func, ast.Name) and \
              e.func.id in ('min', 'max', 'int', 'len'):
        d = e.func.id
      if d is None:
        return ('?', 'call %s' % ast.unparse(e.func))
      short = d.rsplit('.', 1)[-1]
      if short in ('flatnonzero', 'nonzero', 'where') and len(args) == 1:
        return ev(args[0])
      if short in ('pairwise_distances', 'euclidean_distances', 'cdist'):
        pos = [ev(a) for a in args[:2]]
        if 'Y' in kw:
          pos.append(ev(kw['Y']))
        pts = [v for v in pos if v[0] in ('Xc', 'Xrest', 'X')]
        if not pts or any(v != ('Xc',) for v in pts):
          if pts and all(v[0] in ('Xrest', 'X') for v in pts):
            return ('bad', 'distances of %s instead of the rows of the class'
                    % pts[0][0])
          return ('?', 'distance arguments')
        metric = None
        if short == 'cdist' and len(args) >= 3:
          metric = args[2]
        if short == 'pairwise_distances' and len(args) >= 3:
          metric = args[2]
        metric = kw.get('metric', metric)
        mt = 'euclidean'
        if metric is not None:
          if not (isinstance(metric, ast.Constant) and
                  isinstance(metric.value, str)):
            return ('?', 'metric')
          mt = metric.value
        sq = kw.get('squared')
        sqv = False
        if sq is not None:
          if not (isinstance(sq, ast.Constant) and
                  isinstance(sq.value, bool)):
            return ('?', 'squared')
          sqv = sq.value
        if mt in ('l2', 'euclidean'):
          return ('D', Fraction(2 if sqv else 1))
        if mt == 'sqeuclidean' and sq is None:
          return ('D', Fraction(2))
        return ('bad', 'distances in the metric %r' % mt)
      if short == 'squareform' and len(args) == 1:
        return ev(args[0])
      if short == 'pdist' and args and ev(args[0]) == ('Xc',):
        metric = kw.get('metric', args[1] if len(args) > 1 else None)
        if metric is None:
          return ('D', Fraction(1))
        if isinstance(metric, ast.Constant) and metric.value in (
                'euclidean', 'sqeuclidean'):
          return ('D', Fraction(2 if metric.value == 'sqeuclidean' else 1))
        return ('?', 'metric')
      if short == 'sqrt' and len(args) == 1:
        return scale_pow(ev(args[0]), Fraction(1, 2))
      if short == 'square' and len(args) == 1:
        return scale_pow(ev(args[0]), 2)
      if short == 'power' and len(args) == 2 and num(args[1]) is not None:
        return scale_pow(ev(args[0]), num(args[1]))
      if short in ('partition', 'sort') and args:
        v = ev(args[0])
        if v[0] != 'D':
          return ('?', 'ordered array')
        rank = ev(args[1]) if short == 'partition' and len(args) > 1 else \
            (ev(kw['kth']) if 'kth' in kw else None)
        return ('order', v[1], rank)
      if short in ('outer',) and len(args) == 2:
        a, b = ev(args[0]), ev(args[1])
        if a[0] == b[0] == 'kth' and a[1:] == b[1:]:
          return ('LS', a[1])
        return ('?', 'outer')
      if short == 'negative' and len(args) == 1:
        v = asq(ev(args[0]))
        return mkq(-v[1], v[2], v[3]) if v else ('?', 'neg')
      if short in ('divide', 'true_divide') and len(args) == 2:
        a, b = asq(ev(args[0])), asq(ev(args[1]))
        if a and b:
          return mkq(a[1] * b[1], a[2] - b[2], a[3] - b[3])
        return ('?', 'divide')
      if short == 'exp' and len(args) == 1:
        v = asq(ev(args[0]))
        if v is None:
          return ('?', 'exp argument')
        return ('A', v, False)
      if short == 'nan_to_num' and len(args) == 1:
        v = ev(args[0])
        return ('A', v[1], True) if v[0] == 'A' else ('?', 'nan_to_num')
      if short == 'where' and len(args) == 3:
        c_, a, b = ev(args[0]), ev(args[1]), ev(args[2])
        if c_[0] == 'zs':
          zero, aff = (a, b) if c_[1] else (b, a)
          if zero == ('num', 0) and aff[0] == 'A':
            return ('A', aff[1], True)
          if aff == ('num', 0) and zero[0] == 'A':
            return ('A', zero[1], 'inverted')
        return ('?', 'where')
      if short in ('isnan',) and len(args) == 1 and ev(args[0])[0] == 'A':
        return ('zs', True)
      if short in ('isfinite',) and len(args) == 1 and \
              ev(args[0])[0] == 'A':
        return ('zs', False)
      if d == 'min' or short == 'minimum':
        vals = [ev(a) for a in args]
        bounds = [v[1] for v in vals if v[0] == 'ncm'] + \
                 [0 for v in vals if v == ('nc',)] + \
                 [v[1] for v in vals if v[0] == 'k' and v[1] is not None]
        if bounds:
          return ('k', max(bounds))
        return ('k', None)
      if d == 'int' and len(args) == 1:
        return ev(args[0])
      if d == 'len' and len(args) == 1 and ev(args[0]) == ('Xc',):
        return ('nc',)
      if short in ('asarray', 'array', 'ascontiguousarray', 'copy') and args:
        return ev(args[0])
      return ('?', 'call %s' % short)
    if isinstance(e, ast.Attribute) and e.attr == 'shape':
      return ('shape', ev(e.value))
    return ('?', type(e).__name__)

  # shape[0] of the class rows
  def ev_stmt_value(e):
    if isinstance(e, ast.Subscript) and isinstance(e.value, ast.Attribute) \
            and e.value.attr == 'shape' and num(e.slice) == 0 and \
            ev(e.value.value) == ('Xc',):
      return ('nc',)
    return ev(e)

  guard = {}
  a_site = None
  carried = _upward_exposed(loop)
  for s_ in _flat_body(loop.body):
    if isinstance(s_, ast.Assign) and len(s_.targets) == 1:
      tg = s_.targets[0]
      if isinstance(tg, ast.Name):
        env[tg.id] = ev_stmt_value(s_.value)
        if env[tg.id][0] == 'A':
          a_site = s_
      elif isinstance(tg, ast.Subscript) and isinstance(tg.value, ast.Name) \
              and env.get(tg.value.id, ('?',))[0] == 'A':
        m, v = ev(tg.slice), ev(s_.value)
        guard[tg.value.id] = (m, v, s_)
  # which names carry the affinity into the scatter: role 'A'
  A = env.get('A', ('?', 'no affinity'))
  xc = env.get('Xc', ('?', 'no class rows'))
  key = 'LFDA.fit:class-rows'
  if xc == ('Xc',):
    rep.derived(R, key, site(f, loop))
  elif xc == ('Xrest',):
    rep.refuted(R, key, site(f, loop), 'the rows selected for class c are '
                'those whose label differs from c')
  else:
    rep.unknown(R, key, site(f, loop), 'selection of the class rows: %s'
                % (xc,))
  key = 'LFDA.fit:affinity'
  if A[0] != 'A':
    bad = [v for v in env.values() if v[0] == 'bad']
    if bad:
      rep.refuted(R, key, site(f, loop), bad[0][1])
    else:
      rep.unknown(R, key, site(f, loop), 'affinity not derivable: %s' % (A,))
    return
  q = A[1]
  want = mkq(-1, 2, 1)
  if q == want:
    rep.derived(R, key, site(f, a_site or loop),
                sample=dict(rule=R, affinity='exp(-D^2 / (sigma_i sigma_j))'))
  else:
    rep.refuted(R, key, site(f, a_site or loop), 'the affinity is exp(%s D^%s '
                '/ (sigma_i sigma_j)^%s) with D the Euclidean distance and '
                'sigma the k-th neighbour distance; local scaling is '
                'exp(-D^2 / (sigma_i sigma_j))'
                % ('+' if q[1] > 0 else '-', q[2], q[3]))
  # 0/0 entries
  key = 'LFDA.fit:zero-scale-entries'
  g = guard.get('A')
  if A[2] is True:
    rep.derived(R, key, site(f, a_site or loop))
  elif A[2] == 'inverted':
    rep.refuted(R, key, site(f, a_site or loop), 'the affinity is kept where '
                'the local scale is zero and zeroed elsewhere')
  elif g is None:
    rep.refuted(R, key, site(f, a_site or loop), 'entries with zero local '
                'scale (0/0 = NaN, e.g. a class with one point or duplicated '
                'points) are not set to 0: the scatters become NaN')
  else:
    m, v, st_ = g
    if m == ('zs', True) and v == ('num', 0):
      rep.derived(R, key, site(f, st_))
    elif m == ('zs', False):
      rep.refuted(R, key, site(f, st_), 'the affinity is overwritten where '
                  'the local scale is positive: %s' % ast.unparse(st_))
    else:
      rep.unknown(R, key, site(f, st_), 'guard %s' % ast.unparse(st_))
  # the rank
  key = 'LFDA.fit:rank-within-class'
  ranks = []
  for s_ in ast.walk(loop):
    if isinstance(s_, ast.Call) and (dn(s_.func) or '').rsplit('.', 1)[-1] \
            in ('partition',) and len(s_.args) > 1:
      ranks.append((s_, s_.args[1]))
  if not ranks:
    rep.unknown(R, key, site(f, loop), 'no partition call')
    return
  for call, rk in ranks:
    v = ev(rk)
    if v[0] == '?':
      v = ('k', None)
    if v[0] != 'k':
      rep.unknown(R, key, site(f, call), 'rank %s' % (v,))
    elif v[1] is None:
      rep.refuted(R, key, site(f, call), 'the rank %s is not clipped to the '
                  'class size: np.partition raises for a class with at most '
                  'k points' % ast.unparse(rk))
    elif v[1] < 1:
      rep.refuted(R, key, site(f, call), 'the rank may reach nc - %s, beyond '
                  'the last index nc - 1 of a class with nc points' % v[1])
    else:
      names = [x.id for x in ast.walk(rk) if isinstance(x, ast.Name)]
      loopc = [nm for nm in names if nm in carried]
      if loopc:
        rep.refuted(R, 'LFDA.fit:rank-per-class', site(f, carried[loopc[0]]),
                    'the clipped rank %s is carried to the next class (%s): '
                    'after a small class every later class uses the small '
                    'rank, so the result depends on the order of the class '
                    'labels' % (loopc[0], ast.unparse(carried[loopc[0]])))
      else:
        rep.derived(R, 'LFDA.fit:rank-per-class', site(f, call))
      rep.derived(R, key, site(f, call))


def rule_lfda_solver(repo, rep):
  R = 'R-FORM:lfda-generalised-eigenproblem'
  rep.rule(R, 'the matrices handed to the eigen-solver are the accumulated '
           'scatters up to symmetrisation (a S + b S^T with a + b = 1), and '
           'every solver call in lfda._eigh poses the problem (S_b, S_w) in '
           'this order, asking for the largest eigenvalues')
  f0, roles = _lfda_roles(repo)
  f = astutil.role_view(f0, roles)
  if f is None:
    rep.unknown(R, 'LFDA.fit', site(f0), 'roles not assignable')
    return
  from ..ncalg import NC, NCEval
  from ..ratfunc import Rat
  loops = [n for n in ast.walk(f.node) if isinstance(n, ast.For) and
           any(isinstance(s, ast.AugAssign) and
               ast.unparse(s.target) in ('tSb', 'tSw') for s in n.body)]
  calls = [n for n in ast.walk(f.node) if isinstance(n, ast.Call) and
           (repo.dotted(f.module, n.func) or '').endswith('lfda._eigh')]
  if len(loops) != 1 or len(calls) != 1:
    rep.unknown(R, 'LFDA.fit', site(f0), 'class loop / solver call not found')
    return
  loop, call = loops[0], calls[0]

  def canon_of(e):
    d = repo.dotted(f.module, e)
    return canon(d) if d else None
  # after the loop and the final adjustment of tSb, evaluate the remaining
  # re-assignments of tSb / tSw in terms of their incoming values
  for name in ('tSb', 'tSw'):
    S = NC.atom('S')
    evl = NCEval({name: S}, {}, canon_of)
    last = None
    opaque = False
    for s_ in f.node.body:
      if getattr(s_, 'lineno', 0) <= loop.end_lineno or \
              s_.lineno >= call.lineno:
        continue
      if isinstance(s_, ast.Assign) and len(s_.targets) == 1 and \
              ast.unparse(s_.targets[0]) == name:
        other = 'tSw' if name == 'tSb' else 'tSb'
        if other in [x.id for x in ast.walk(s_.value)
                     if isinstance(x, ast.Name)]:
          # the final adjustment (decided by the scatter rule): restart
          evl.mats[name] = S
          continue
        v = evl.ev(s_.value)
        last = s_
        if isinstance(v, NC):
          evl.mats[name] = v
        else:
          opaque = True
      elif isinstance(s_, ast.AugAssign) and \
              ast.unparse(s_.target) == name:
        evl.mats[name] = S
    key = 'LFDA.fit:%s-symmetrised' % name
    v = evl.mats[name]
    if opaque or not isinstance(v, NC):
      rep.unknown(R, key, site(f, last or call), 'not derivable')
      continue
    tot = Rat.const(0)
    only = True
    for w, c in v.terms.items():
      if len(w) == 1 and w[0][0] == 'm' and w[0][1] == 'S':
        tot = tot + c
      else:
        only = False
    if only and (tot - Rat.const(1)).is_zero():
      rep.derived(R, key, site(f, last or call),
                  sample=dict(rule=R, value=repr(v)))
    elif only:
      rep.refuted(R, key, site(f, last or call), 'the solver receives %r of '
                  'the accumulated scatter S (S is symmetric by construction, '
                  'so this is %r * S, not S)' % (v, tot))
    else:
      rep.unknown(R, key, site(f, last or call), 'value %r' % (v,))
  # the solver calls
  g = repo.get_func('lfda._eigh')
  rep.analysed(g)
  ps = g.params()
  table = {'scipy.sparse.linalg.eigsh': ('A', 'M', 2),
           'scipy.linalg.eigh': ('a', 'b', 1), 'scipy.linalg.eig': ('a', 'b', 1),
           'numpy.linalg.eigh': None, 'numpy.linalg.eig': None}
  nsolve = 0
  for n in ast.walk(g.node):
    if not isinstance(n, ast.Call):
      continue
    d = repo.dotted(g.module, n.func) or ''
    hit = [k for k in table if canon(d) == canon(k)]
    if not hit:
      continue
    nsolve += 1
    key = 'lfda._eigh:%s' % hit[0].rsplit('.', 1)[1]
    spec = table[hit[0]]
    if spec is None:
      rep.refuted(R, key, site(g, n), '%s solves an ordinary eigenproblem: '
                  'S_w is ignored' % hit[0])
      continue
    kw = {k.arg: k.value for k in n.keywords if k.arg}
    a = n.args[0] if n.args else kw.get(spec[0])
    b = n.args[spec[2]] if len(n.args) > spec[2] else kw.get(spec[1])
    ta = ast.unparse(a) if a is not None else None
    tb = ast.unparse(b) if b is not None else None
    if (ta, tb) == (ps[0], ps[1]):
      which = kw.get('which')
      if hit[0].endswith('eigsh') and not (
              isinstance(which, ast.Constant) and which.value == 'LA'):
        rep.refuted(R, key, site(g, n), 'eigsh is asked for which=%s, the '
                    'leading eigenvectors are the largest algebraic (LA)'
                    % (ast.unparse(which) if which is not None else 'LM '
                       '(default)'))
      else:
        rep.derived(R, key, site(g, n))
    elif (ta, tb) == (ps[1], ps[0]):
      rep.refuted(R, key, site(g, n), 'the generalised problem is posed as '
                  '(%s, %s): within- and between-class scatter exchanged'
                  % (ta, tb))
    elif tb is None:
      rep.refuted(R, key, site(g, n), 'no second matrix: ordinary '
                  'eigenproblem of %s' % ta)
    else:
      rep.unknown(R, key, site(g, n), 'arguments (%s, %s)' % (ta, tb))
  rep.floor('LFDA eigen-solver calls', nsolve, 3)



# ------------------------------------------------ branch conditions
class _DimSubst(ast.NodeTransformer):
  """replace size / shape expressions by the numbers of a representative"""

  def __init__(self, names, d, square=None):
    self.names = names        # {name: int}
    self.d = d
    self.square = square or ()

  def visit_Name(self, n):
    if isinstance(n.ctx, ast.Load) and n.id in self.names:
      return ast.copy_location(ast.Constant(self.names[n.id]), n)
    return n

  def visit_Attribute(self, n):
    self.generic_visit(n)
    if n.attr == 'size' and ast.unparse(n.value) in self.square:
      return ast.copy_location(ast.Constant(self.d * self.d), n)
    if n.attr == 'shape' and ast.unparse(n.value) in self.square:
      return ast.copy_location(
          ast.Tuple([ast.Constant(self.d), ast.Constant(self.d)],
                    ast.Load()), n)
    return n

  def visit_Subscript(self, n):
    txt = ast.unparse(n)
    if isinstance(n.value, ast.Attribute) and n.value.attr == 'shape':
      base = ast.unparse(n.value.value)
      idx = ast.unparse(n.slice)
      if base in self.square and idx in ('0', '1', '-1'):
        return ast.copy_location(ast.Constant(self.d), n)
      if base == 'X' and idx in ('1', '-1'):
        return ast.copy_location(ast.Constant(self.d), n)
    self.generic_visit(n)
    return n

  def visit_Call(self, n):
    if isinstance(n.func, ast.Name) and n.func.id == 'len' and \
            len(n.args) == 1 and ast.unparse(n.args[0]) in self.square:
      return ast.copy_location(ast.Constant(self.d), n)
    self.generic_visit(n)
    return n


def rule_covariance_branch(repo, rep):
  R = 'R-FORM:covariance-scalar-branch'
  rep.rule(R, 'an element-wise reciprocal 1 / M stands for the inverse only '
           'of a 1 x 1 matrix: the statement is unreachable for d >= 2 '
           '(branch tests interpreted on d = 1, 2, 3, 5)')
  from .. import guardeval
  import copy
  f = repo.resolve_method(repo.get_class('Covariance'), 'fit')
  rep.analysed(f)
  # square d x d matrices: names assigned from cov / atleast_2d(cov)
  square = set()
  for n in ast.walk(f.node):
    if isinstance(n, ast.Assign) and isinstance(n.targets[0], ast.Name) and \
            any(isinstance(c, ast.Call) and
                canon(repo.dotted(f.module, c.func) or '') ==
                canon('numpy.cov') for c in ast.walk(n.value)):
      square.add(n.targets[0].id)
  recips = [n for n in ast.walk(f.node) if isinstance(n, ast.BinOp) and
            isinstance(n.op, ast.Div) and
            isinstance(n.right, ast.Name) and n.right.id in square]
  recips += [n for n in ast.walk(f.node) if isinstance(n, ast.Call) and
             canon(repo.dotted(f.module, n.func) or '') ==
             canon('numpy.reciprocal')]
  if not recips:
    rep.derived(R, 'Covariance.fit:no-reciprocal', site(f))
    return
  for node in recips:
    verdicts = {}
    for d in (1, 2, 3, 5):
      def tev(test, d=d):
        t2 = _DimSubst({}, d, square).visit(copy.deepcopy(test))
        return guardeval.ev(t2, {})
      verdicts[d] = guardeval.reaches(f.node.body, node, tev)
    key = 'Covariance.fit:reciprocal'
    bad = [d for d in (2, 3, 5) if verdicts[d] == 'yes']
    maybe = [d for d in (2, 3, 5) if verdicts[d] == 'maybe']
    if bad:
      rep.refuted(R, key, site(f, node), '%s is executed for d = %s: the '
                  'element-wise reciprocal of a %sx%s covariance is not its '
                  'inverse' % (ast.unparse(node), bad[0], bad[0], bad[0]))
    elif maybe:
      rep.unknown(R, key, site(f, node), 'guard of %s not decided'
                  % ast.unparse(node))
    else:
      rep.derived(R, key, site(f, node),
                  sample=dict(rule=R, reachable={str(k): v for k, v in
                                                 verdicts.items()}))


def _selection_kind(repo, f, expr):
  """np.argsort(v)[:k] -> ('smallest', v); argsort(-v)[:k], argsort(v)[::-1]
  [:k], argsort(v)[-k:] -> ('largest', v); else None"""
  sl = []
  e = expr
  while isinstance(e, ast.Subscript):
    sl.append(e.slice)
    e = e.value
  if not (isinstance(e, ast.Call) and
          (repo.dotted(f.module, e.func) or '').endswith('argsort') and
          e.args):
    return None
  sl.reverse()
  arg = e.args[0]
  neg = isinstance(arg, ast.UnaryOp) and isinstance(arg.op, ast.USub)
  if neg:
    arg = arg.operand
  largest_first = neg
  picked = None
  for s_ in sl:
    if not isinstance(s_, ast.Slice):
      return None
    if s_.lower is None and s_.upper is None and s_.step is not None and \
            ast.unparse(s_.step) == '-1':
      if picked:
        return None
      largest_first = not largest_first
    elif s_.lower is None and s_.step is None and s_.upper is not None and \
            not (isinstance(s_.upper, ast.UnaryOp)):
      picked = 'head'
    elif s_.upper is None and s_.step is None and \
            isinstance(s_.lower, ast.UnaryOp) and \
            isinstance(s_.lower.op, ast.USub):
      picked = 'tail'
    else:
      return None
  if picked is None:
    return None
  largest = largest_first if picked == 'head' else not largest_first
  return ('largest' if largest else 'smallest', arg)


def rule_rca_projection(repo, rep):
  R = 'R-FORM:rca-fisher-projection'
  rep.rule(R, 'when RCA reduces the dimension, the retained directions are '
           'eigenvectors of T^-1 C (T total, C inner covariance) with the '
           'smallest eigenvalues, or of C^-1 T with the largest - those '
           'maximising total-to-within-chunk variance - and the reduction '
           'is taken whenever dim < d')
  from .. import guardeval
  import copy
  h0 = repo.get_func('rca.RCA.fit')
  rep.analysed(h0)
  h = astutil.inline_helpers(repo, h0)

  def dn(e):
    d = repo.dotted(h.module, e)
    return canon(d) if d else None
  body_stmts = [n for n in ast.walk(h.node) if isinstance(n, ast.Assign)]
  centred = set()
  for n in body_stmts:
    if isinstance(n.value, ast.Call) and (repo.dotted(h.module, n.value.func)
                                          or '').endswith(
            '_chunk_mean_centering') and isinstance(n.targets[0], ast.Tuple):
      centred.add(ast.unparse(n.targets[0].elts[1]))
  # kind of each covariance-valued name: inner / total
  kind = {}

  def cov_kind(e):
    for c in ast.walk(e):
      if isinstance(c, ast.Call) and dn(c.func) == canon('numpy.cov') and \
              c.args:
        return 'inner' if ast.unparse(c.args[0]) in centred else 'total'
    return None
  defs = {}
  for n in body_stmts:
    for tg, val in astutil.assign_pairs(n):
      defs.setdefault(tg, []).append((n, val))
      k = cov_kind(val)
      if k and tg not in kind:
        kind[tg] = k          # first definition (before any projection)

  def kind_of(e):
    if isinstance(e, ast.Name):
      return kind.get(e.id)
    return cov_kind(e)

  def ratio_of(e, depth=0):
    """('within/total' | 'total/within') of the matrix expression e"""
    if depth > 4:
      return None
    if isinstance(e, ast.Name) and e.id in defs and len(defs[e.id]) == 1:
      return ratio_of(defs[e.id][0][1], depth + 1)
    if isinstance(e, ast.Subscript) and isinstance(e.value, ast.Call) and \
            dn(e.value.func) in (canon('numpy.linalg.lstsq'),
                                 canon('scipy.linalg.lstsq')) and \
            ast.unparse(e.slice) == '0' and len(e.value.args) >= 2:
      P, Q = kind_of(e.value.args[0]), kind_of(e.value.args[1])
    elif isinstance(e, ast.Call) and dn(e.func) in (
            canon('numpy.linalg.solve'), canon('scipy.linalg.solve')) and \
            len(e.args) >= 2:
      P, Q = kind_of(e.args[0]), kind_of(e.args[1])
    else:
      inv = None
      if isinstance(e, ast.Call) and isinstance(e.func, ast.Attribute) and \
              e.func.attr == 'dot' and len(e.args) == 1:
        inv, other = e.func.value, e.args[0]
      elif isinstance(e, ast.BinOp) and isinstance(e.op, ast.MatMult):
        inv, other = e.left, e.right
      if inv is not None and isinstance(inv, ast.Call) and dn(inv.func) in (
              canon('numpy.linalg.inv'), canon('numpy.linalg.pinv'),
              canon('scipy.linalg.inv'), canon('scipy.linalg.pinv'),
              canon('scipy.linalg.pinvh')) and inv.args:
        P, Q = kind_of(inv.args[0]), kind_of(other)
      else:
        return None
    if (P, Q) == ('total', 'inner'):
      return 'within/total'
    if (P, Q) == ('inner', 'total'):
      return 'total/within'
    return None
  eigs = []
  for n in body_stmts:
    if isinstance(n.value, ast.Call) and dn(n.value.func) in EIG_FUNCS and \
            isinstance(n.targets[0], ast.Tuple) and \
            len(n.targets[0].elts) == 2 and n.value.args:
      eigs.append(n)
  if not eigs:
    rep.unknown(R, 'rca.RCA.fit:eig', site(h), 'no eigen-decomposition found')
    return
  for n in eigs:
    key = 'rca.RCA.fit:retained-directions'
    call = n.value
    if len(call.args) >= 2 and dn(call.func) in (
            canon('scipy.linalg.eigh'), canon('scipy.linalg.eig')):
      P, Q = kind_of(call.args[1]), kind_of(call.args[0])
      ratio = {('total', 'inner'): 'within/total',
               ('inner', 'total'): 'total/within'}.get((P, Q))
    else:
      ratio = ratio_of(call.args[0])
    if ratio is None:
      rep.unknown(R, key, site(h, n), 'matrix %s of the eigenproblem is not '
                  'one of the recognised quotients of the total and inner '
                  'covariance' % ast.unparse(call.args[0]))
      continue
    vals = {ast.unparse(n.targets[0].elts[0]): 1}     # alias -> sign
    sels = []
    for m in sorted(body_stmts, key=lambda x: x.lineno):
      if m.lineno <= n.lineno:
        continue
      for tg, val in astutil.assign_pairs(m):
        for x in ast.walk(val):       # outermost match first
          sk = _selection_kind(repo, h, x) \
              if isinstance(x, ast.Subscript) else None
          if sk is not None:
            sels.append((m, sk, dict(vals)))
            break
      new = {}
      for tg, val in astutil.assign_pairs(m):
        base, sg = val, 1
        while True:
          if isinstance(base, ast.Attribute) and base.attr == 'real':
            base = base.value
          elif isinstance(base, ast.UnaryOp) and \
                  isinstance(base.op, ast.USub):
            base, sg = base.operand, -sg
          elif isinstance(base, ast.Call) and dn(base.func) == canon(
                  'numpy.real') and base.args:
            base = base.args[0]
          else:
            break
        new[tg] = (vals[ast.unparse(base)] * sg
                   if ast.unparse(base) in vals else None)
      for tg, sg in new.items():
        if sg is None:
          vals.pop(tg, None)
        else:
          vals[tg] = sg
    if not sels:
      rep.unknown(R, key, site(h, n), 'selection of eigenvalues not found')
      continue
    for m, (which, arg), al in sels:
      if ast.unparse(arg) not in al:
        rep.unknown(R, key, site(h, m), 'sorted quantity %s is not the '
                    'eigenvalues' % ast.unparse(arg))
        continue
      if al[ast.unparse(arg)] < 0:
        which = {'largest': 'smallest', 'smallest': 'largest'}[which]
      good = (ratio, which) in (('within/total', 'smallest'),
                                ('total/within', 'largest'))
      if good:
        rep.derived(R, key, site(h, m), sample=dict(rule=R, quotient=ratio,
                                                    kept=which))
      else:
        rep.refuted(R, key, site(h, m), 'the %s eigenvalues of the %s '
                    'covariance quotient are kept: these directions minimise '
                    'total-to-within-chunk variance' % (which, ratio))
  # the branch: stores that do not use the eigenvectors must be unreachable
  # when dim < d
  dimnames = set()
  for n in body_stmts:
    if isinstance(n.targets[0], ast.Name) and isinstance(n.value, ast.Call) \
            and (ast.unparse(n.value.func).endswith('_check_dimension') or
                 ast.unparse(n.value.func).endswith('_check_n_components')):
      dimnames.add(n.targets[0].id)
  dnames = set()
  for n in body_stmts:
    for tg, val in astutil.assign_pairs(n):
      if ast.unparse(val) in ('X.shape[1]', 'X.shape[-1]'):
        dnames.add(tg)
    if isinstance(n.targets[0], ast.Tuple) and \
            ast.unparse(n.value) == 'X.shape' and len(n.targets[0].elts) == 2:
      dnames.add(ast.unparse(n.targets[0].elts[1]))
  if not dimnames:
    rep.unknown(R, 'rca.RCA.fit:reduction-branch', site(h), 'dimension '
                'variable not found')
    return
  for st in eigs:
    key = 'rca.RCA.fit:reduction-branch'
    res = {}
    for (dim, d) in ((1, 2), (2, 5), (4, 5), (1, 7)):
      names = {nm: dim for nm in dimnames}
      names.update({nm: d for nm in dnames})

      def tev(test, names=names, d=d):
        t2 = _DimSubst(names, d).visit(copy.deepcopy(test))
        return guardeval.ev(t2, {})
      res[(dim, d)] = guardeval.reaches(h.node.body, st, tev)
    bad = [k for k, v in res.items() if v == 'no']
    maybe = [k for k, v in res.items() if v == 'maybe']
    if bad:
      rep.refuted(R, key, site(h, st), 'with dim = %d < d = %d the '
                  'projection onto the retained directions is not computed: '
                  'the stored transformation keeps all d dimensions'
                  % (bad[0][0], bad[0][1]))
    elif maybe:
      rep.unknown(R, key, site(h, st), 'branch condition not decided')
    else:
      rep.derived(R, key, site(h, st))


def check(repo, rep, tier):
  rule_order_statistics(repo, rep)
  rule_cov_sites(repo, rep)
  rule_covariance(repo, rep)
  rule_covariance_branch(repo, rep)
  rule_rca(repo, rep)
  rule_rca_whitening(repo, rep)
  rule_rca_projection(repo, rep)
  # the two text-matching rules on LFDA's ordering / embedding statements
  # (rule_lfda, rule_lfda_qr_order) raised false alarms on dispatch-table
  # rewrites; the interpretive rule decides the stored value itself
  from . import c09b
  c09b.rule_lfda_tail(repo, rep)
  rule_lfda_scatter(repo, rep)
  rule_lfda_affinity(repo, rep)
  rule_lfda_solver(repo, rep)
  # RCA's total covariance (the numerator of the retained-variance ratio) is
  # that of the points as given: the chunk centring must not write into the
  # array fit goes on to use (FRESH rule of C17, RCA only)
  from . import c17 as _c17
  before = len(rep.obs)
  fl = len(rep.floors)
  _c17.rule_writes(repo, rep)
  rep.obs[before:] = [o for o in rep.obs[before:]
                      if o['construct'].startswith(('RCA.fit',
                                                    'RCA_Supervised.fit'))]
  rep.floors = rep.floors[:fl]


