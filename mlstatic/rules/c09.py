"""C09 - closed-form learners compute their documented formula (structural
necessary conditions only: axes, sample-axis convention, def-use chain)."""
import ast
from fractions import Fraction
from ..model import FuncInfo, canon
from ..engine import Engine, V, State, NOCONST
from ..algdom import AlgDomain
from ..algebra import UNKNOWN, Poly, SExpr, Vec, Lin, A
from .. import astutil, guards
from .common import site
from .c20 import _gram_equals_M, _pinv_form

ORDER_FUNCS = {canon('numpy.partition'): 2, canon('numpy.argpartition'): 2,
               canon('numpy.sort'): 1, canon('numpy.argsort'): 1}
NDIM_OF_CALL = {canon('sklearn.metrics.pairwise_distances'): 2,
                canon('sklearn.metrics.euclidean_distances'): 2,
                canon('numpy.vstack'): 2, canon('numpy.outer'): 2,
                canon('numpy.cov'): 2}
EIG_FUNCS = set(canon(x) for x in ('numpy.linalg.eigh', 'numpy.linalg.eig',
                                   'scipy.linalg.eigh', 'scipy.linalg.eig',
                                   'scipy.sparse.linalg.eigsh'))


def _ndim_of(repo, f, expr, depth=0, before=None):
  """ndim of an expression inferred from how it was produced (or None)."""
  if depth > 4:
    return None
  if isinstance(expr, ast.UnaryOp):
    return _ndim_of(repo, f, expr.operand, depth + 1, before)
  if isinstance(expr, ast.Attribute) and expr.attr in ('real', 'T'):
    return _ndim_of(repo, f, expr.value, depth + 1, before)
  if isinstance(expr, ast.Call):
    d = repo.dotted(f.module, expr.func)
    d = canon(d) if d else None
    if d in NDIM_OF_CALL:
      return NDIM_OF_CALL[d]
    if d in ORDER_FUNCS and expr.args:
      return _ndim_of(repo, f, expr.args[0], depth + 1, before)
    return None
  if isinstance(expr, ast.Name):
    # single assignment in the function
    defs = []
    limit = before if before is not None else getattr(expr, 'lineno', 10**9)
    for n in ast.walk(f.node):
      if isinstance(n, ast.Assign) and n.lineno < limit:
        for t in n.targets:
          if isinstance(t, ast.Name) and t.id == expr.id:
            defs.append((n.lineno, None, n.value))
          elif isinstance(t, ast.Tuple):
            for i, e in enumerate(t.elts):
              if isinstance(e, ast.Name) and e.id == expr.id:
                defs.append((n.lineno, i, n.value))
    # the nearest preceding definition decides
    defs = [(i, v) for (ln, i, v) in sorted(defs, key=lambda x: x[0])[-1:]]
    nds = set()
    for (i, val) in defs:
      if i is None:
        nds.add(_ndim_of(repo, f, val, depth + 1, None))
      elif isinstance(val, ast.Tuple) and i < len(val.elts):
        nds.add(_ndim_of(repo, f, val.elts[i], depth + 1, None))
      elif isinstance(val, ast.Call):
        d = repo.dotted(f.module, val.func)
        d = canon(d) if d else None
        callee = repo.func_by_dotted(repo.dotted(f.module, val.func) or '')
        if d in EIG_FUNCS or (callee is not None and
                              callee.name in ('_eigh',)):
          nds.add(1 if i == 0 else 2)
        else:
          nds.add(None)
      else:
        nds.add(None)
    if len(nds) == 1:
      return nds.pop()
  return None


def rule_order_statistics(repo, rep):
  R = 'R-FORM:order-statistic-axis'
  rep.rule(R, 'where np.partition / argpartition / sort / argsort(a, axis=A) '
           'is immediately indexed to pick a fixed rank k or a rank prefix '
           ':k, the picked axis is the ordered axis A (default: last)')
  n = 0
  for f in repo.all_functions():
    pm = astutil.parents(f.node)
    for call in astutil.calls_in(f.node):
      d = repo.dotted(f.module, call.func)
      d = canon(d) if d else None
      if d not in ORDER_FUNCS:
        continue
      par = pm.get(call)
      if not (isinstance(par, ast.Subscript) and par.value is call):
        continue
      n += 1
      key = '%s:%s' % (f.key, d.rsplit('.', 1)[1])
      axis = -1
      ax = [k for k in call.keywords if k.arg == 'axis']
      if ax:
        try:
          axis = ast.literal_eval(ax[0].value)
        except Exception:
          rep.unknown(R, key, site(f, call), 'axis is not a literal')
          continue
      elif len(call.args) > ORDER_FUNCS[d]:
        try:
          axis = ast.literal_eval(call.args[ORDER_FUNCS[d]])
        except Exception:
          rep.unknown(R, key, site(f, call), 'axis is not a literal')
          continue
      parts = par.slice.elts if isinstance(par.slice, ast.Tuple) \
          else [par.slice]

      def is_full(p):
        # full slice, possibly reversed: keeps every rank
        return isinstance(p, ast.Slice) and p.lower is None and \
            p.upper is None
      picks = [i for i, p in enumerate(parts)
               if not is_full(p) and not (isinstance(p, ast.Constant) and
                                          p.value is Ellipsis)]
      has_ell = any(isinstance(p, ast.Constant) and p.value is Ellipsis
                    for p in parts)
      if len(picks) != 1:
        continue          # not a rank selection
      nd = _ndim_of(repo, f, call.args[0], 0, call.lineno) if call.args \
          else None
      pos = picks[0]
      if has_ell:
        ell = [i for i, p in enumerate(parts)
               if isinstance(p, ast.Constant) and p.value is Ellipsis][0]
        sel_from_end = len(parts) - 1 - pos if pos > ell else None
        if sel_from_end is None:
          sel = pos
        else:
          sel = -1 - sel_from_end
      else:
        sel = pos
      if axis is None:
        continue
      if nd is None and (sel < 0) != (axis < 0):
        rep.unknown(R, key, site(f, call), 'dimensionality of the ordered '
                    'array not derivable')
        continue
      na = axis if axis >= 0 or nd is None else nd + axis
      ns = sel if sel >= 0 or nd is None else nd + sel
      if na == ns:
        rep.derived(R, key, site(f, call),
                    sample=dict(rule=R, site=site(f, call), ordered_axis=axis,
                                picked_axis=sel, ndim=nd))
      else:
        rep.refuted(R, key, site(f, call), 'ordered along axis %s but the '
                    'rank is picked on axis %s: %s' % (axis, sel,
                                                       ast.unparse(par)))
  rep.floor('order-statistic selections found', n, 3)


def rule_cov_sites(repo, rep):
  R = 'R-SIB:cov-sample-axis'
  rep.rule(R, 'every np.cov call on an (n_samples, n_features) array passes '
           'rowvar=False/0 (variables in columns)')
  n = 0
  for f in repo.all_functions():
    for call in astutil.calls_in(f.node):
      d = repo.dotted(f.module, call.func)
      if not d or canon(d) != canon('numpy.cov'):
        continue
      n += 1
      rv = [k for k in call.keywords if k.arg == 'rowvar']
      val = None
      if rv:
        try:
          val = ast.literal_eval(rv[0].value)
        except Exception:
          val = 'unknown'
      elif len(call.args) > 2:
        try:
          val = ast.literal_eval(call.args[2])
        except Exception:
          val = 'unknown'
      else:
        val = True
      key = '%s:np.cov(%s)' % (f.key, ast.unparse(call.args[0])
                               if call.args else '')
      if val in (False, 0):
        rep.derived(R, key, site(f, call))
      elif val == 'unknown':
        rep.unknown(R, key, site(f, call), 'rowvar is not a literal')
      else:
        rep.refuted(R, key, site(f, call), 'np.cov treats rows as variables '
                    '(rowvar=%r) on a samples-by-features array' % (val,))
  rep.floor('np.cov call sites', n, 4)


class CovDomain(AlgDomain):
  def summary(self, target, args, kwargs, node, st):
    if target.name == '_prepare_inputs' and target.cls is not None:
      return V(Poly.sym('X', 'rows'), ty='ndarray')
    return AlgDomain.summary(self, target, args, kwargs, node, st)

  def binop(self, op, l, r, node, st):
    # 1. / M for a 1x1 matrix is its inverse
    if isinstance(op, ast.Div) and self._num(l.d) == 1 and \
            isinstance(r.d, Poly) and r.d.kind == 'mat':
      return Poly.sym('inv(%s)' % self._name_of(r.d), 'mat', symmetric=True)
    return AlgDomain.binop(self, op, l, r, node, st)


def rule_covariance(repo, rep):
  R = 'R-FORM:covariance-learner'
  rep.rule(R, 'Covariance.fit stores L with L^T L = exactly one '
           '(pseudo-)inversion of cov(X, rowvar=False) of the validated data')
  c = repo.get_class('Covariance')
  f = repo.resolve_method(c, 'fit')
  rep.analysed(f)
  Poly.ORTHO.clear()
  dom = CovDomain()
  dom.symm = {'inv(cov(X))'}
  eng = Engine(repo, dom, self_cls=c)
  flow = eng.run(f)
  if not flow.returns:
    rep.refuted(R, 'Covariance.fit', site(f), 'no normal exit')
  for (v, st, node) in flow.returns:
    comp = st.vars.get(('self', 'components_'))
    if comp is None:
      rep.refuted(R, 'Covariance.fit', site(f, node), 'components_ not set')
      continue
    ok, detail = _gram_equals_M(dom, comp.d, st, 'inv(cov(X))')
    if ok is None:
      rep.unknown(R, 'Covariance.fit', site(f, node), detail)
    elif ok:
      rep.derived(R, 'Covariance.fit', site(f, node),
                  sample=dict(rule=R, L=detail, M='inv(cov(X))'))
    else:
      rep.refuted(R, 'Covariance.fit', site(f, node), detail)


class _Centering:
  """Symbolic evaluation of rca._chunk_mean_centering(data, chunks): which
  rows are kept, which selections of the kept rows get which mean
  subtracted, which chunk ids the loop visits.  Values:
    ('data',) ('chunks',) ('known',) mask of chunk != -1
    ('kept',) rows data[known]; ('lab',) chunks[known]
    ('sel', c) the kept rows of chunk c (boolean mask or index vector)
    ('rows', c) kept[sel c]; ('mean', c, axis); ('centred', c, c2)
    ('ids', kind) the sequence the loop runs over"""

  def __init__(self, repo, f):
    self.repo, self.f = repo, f
    p = f.params()
    self.env = {p[0]: ('data',), p[1]: ('chunks',)}
    self.centred = []       # (c, c2, axis, node)
    self.other_writes = []  # writes to the kept rows that are not centrings
    self.loops = []         # (ids value, node)
    self.ret = None

  def dn(self, e):
    d = self.repo.dotted(self.f.module, e)
    return canon(d) if d else None

  def axis_of(self, call):
    for k in call.keywords:
      if k.arg == 'axis':
        return ast.unparse(k.value)
    pos = call.args[1:] if self.dn(call.func) else call.args
    return ast.unparse(pos[0]) if pos else None

  def ev(self, e):
    if isinstance(e, ast.Name):
      return self.env.get(e.id, ('?',))
    if isinstance(e, ast.Constant):
      return ('const', e.value)
    if isinstance(e, ast.UnaryOp) and isinstance(e.op, ast.USub) and \
            isinstance(e.operand, ast.Constant):
      return ('const', -e.operand.value)
    if isinstance(e, ast.Compare) and len(e.ops) == 1:
      a, b = self.ev(e.left), self.ev(e.comparators[0])
      op = e.ops[0]
      if a == ('chunks',) and b[0] == 'const':
        if (isinstance(op, ast.NotEq) and b[1] == -1) or \
                (isinstance(op, ast.GtE) and b[1] == 0) or \
                (isinstance(op, ast.Gt) and b[1] == -1):
          return ('known',)
        return ('badmask', ast.unparse(e))
      if isinstance(op, ast.Eq):
        for x, y in ((a, b), (b, a)):
          if x == ('lab',) and y[0] == 'id':
            return ('sel', y[1])
      return ('?',)
    if isinstance(e, ast.Subscript):
      b = self.ev(e.value)
      if isinstance(e.slice, ast.Constant) and b[0] == 'wheretuple':
        return b[1]
      i = self.ev(e.slice)
      if b == ('data',) and i == ('known',):
        return ('kept',)
      if b == ('chunks',) and i == ('known',):
        return ('lab',)
      if b == ('kept',) and i[0] == 'sel':
        return ('rows', i[1])
      return ('?',)
    if isinstance(e, ast.BinOp):
      a, b = self.ev(e.left), self.ev(e.right)
      if isinstance(e.op, ast.Sub) and a[0] == 'rows' and b[0] == 'mean':
        return ('centred', a[1], b[1], b[2])
      if isinstance(e.op, ast.Add):
        for x, y in ((a, b), (b, a)):
          if x[0] == 'maxid' and y == ('const', 1):
            return ('count', 'max+1')
      return ('?',)
    if isinstance(e, ast.Call):
      d = self.dn(e.func)
      if isinstance(e.func, ast.Attribute) and d is None:
        recv = self.ev(e.func.value)
        m = e.func.attr
        if m in ('astype', 'copy') and recv == ('kept',):
          return ('kept',)
        if m == 'mean' and recv[0] == 'rows':
          return ('mean', recv[1], self.axis_of(e))
        if m == 'mean' and recv == ('kept',):
          return ('mean', '<all kept rows>', self.axis_of(e))
        if m == 'max' and recv in (('chunks',), ('lab',)) and not e.args:
          return ('maxid',)
        return ('?',)
      if d in (canon('numpy.flatnonzero'),) and len(e.args) == 1:
        v = self.ev(e.args[0])
        return v if v[0] == 'sel' else ('?',)
      if d in (canon('numpy.where'), canon('numpy.nonzero')) and \
              len(e.args) == 1:
        v = self.ev(e.args[0])
        return ('wheretuple', v) if v[0] == 'sel' else ('?',)
      if d == canon('numpy.mean') and e.args:
        v = self.ev(e.args[0])
        if v[0] == 'rows':
          return ('mean', v[1], self.axis_of(e))
      if d in (canon('numpy.max'), canon('numpy.amax')) and len(e.args) == 1 \
              and self.ev(e.args[0]) in (('chunks',), ('lab',)):
        return ('maxid',)
      if d == canon('numpy.unique') and len(e.args) == 1 and not e.keywords:
        v = self.ev(e.args[0])
        if v in (('chunks',), ('lab',)):
          return ('ids', 'distinct')
      if isinstance(e.func, ast.Name) and e.func.id == 'int' and e.args:
        return self.ev(e.args[0])
      if isinstance(e.func, ast.Name) and e.func.id == 'len' and e.args:
        v = self.ev(e.args[0])
        if v == ('ids', 'distinct'):
          return ('count', 'distinct')
      if isinstance(e.func, ast.Name) and e.func.id == 'range' and \
              len(e.args) == 1:
        v = self.ev(e.args[0])
        if v[0] == 'count':
          return ('ids', 'range-' + v[1])
      if d in (canon('numpy.asarray'), canon('numpy.array')) and e.args:
        return self.ev(e.args[0])
    return ('?',)

  def run(self, body):
    for s_ in body:
      if isinstance(s_, ast.Assign) and len(s_.targets) == 1:
        t = s_.targets[0]
        if isinstance(t, ast.Name):
          self.env[t.id] = self.ev(s_.value)
        elif isinstance(t, ast.Tuple) and isinstance(s_.value, ast.Tuple) and \
                len(t.elts) == len(s_.value.elts):
          for a, b in zip(t.elts, s_.value.elts):
            if isinstance(a, ast.Name):
              self.env[a.id] = self.ev(b)
        elif isinstance(t, ast.Subscript) and self.ev(t.value) == ('kept',):
          i, v = self.ev(t.slice), self.ev(s_.value)
          if i[0] == 'sel' and v[0] == 'centred' and v[1] == i[1]:
            self.centred.append((i[1], v[2], v[3], s_))
          else:
            self.other_writes.append(s_)
      elif isinstance(s_, ast.AugAssign) and \
              isinstance(s_.target, ast.Subscript) and \
              self.ev(s_.target.value) == ('kept',):
        i, v = self.ev(s_.target.slice), self.ev(s_.value)
        if isinstance(s_.op, ast.Sub) and i[0] == 'sel' and v[0] == 'mean':
          self.centred.append((i[1], v[1], v[2], s_))
        else:
          self.other_writes.append(s_)
      elif isinstance(s_, ast.For) and isinstance(s_.target, ast.Name):
        ids = self.ev(s_.iter)
        self.loops.append((ids, s_))
        self.env[s_.target.id] = ('id', s_.target.id)
        self.run(s_.body)
      elif isinstance(s_, ast.Return):
        if isinstance(s_.value, ast.Tuple) and len(s_.value.elts) == 2:
          self.ret = (self.ev(s_.value.elts[0]), self.ev(s_.value.elts[1]))
        else:
          self.ret = (('?',), ('?',))
      elif isinstance(s_, (ast.Expr, ast.Pass)):
        continue
      else:
        self.other_writes.append(s_)


def rule_rca(repo, rep):
  R = 'R-FORM:rca-chunk-centering'
  rep.rule(R, '_chunk_mean_centering subtracts from the rows of each chunk '
           'the mean (axis=0) of exactly those rows, and only rows with '
           'chunk label != -1 are kept')
  Rl = 'R-FORM:rca-every-chunk-centred'
  rep.rule(Rl, 'the centring loop visits every chunk id present: '
           'range(chunks.max() + 1) or a loop over the distinct ids')
  f = repo.get_func('rca._chunk_mean_centering')
  rep.analysed(f)
  cz = _Centering(repo, f)
  cz.run(f.node.body)
  key = 'rca._chunk_mean_centering'
  if cz.other_writes:
    rep.unknown(R, key + ':own-mean', site(f, cz.other_writes[0]),
                'statement %s is outside the evaluated forms'
                % ast.unparse(cz.other_writes[0]).split('\n')[0])
  elif not cz.centred:
    rep.unknown(R, key + ':own-mean', site(f), 'no centring statement '
                'recognised')
  else:
    bad = [x for x in cz.centred if x[0] != x[1] or x[2] != '0']
    if bad:
      c, c2, ax, node = bad[0]
      rep.refuted(R, key + ':own-mean', site(f, node), 'the rows of chunk '
                  '%s have the mean of %s taken over axis %s subtracted'
                  % (c, 'chunk ' + c2 if c != c2 else 'their own rows', ax))
    else:
      rep.derived(R, key + ':own-mean', site(f, cz.centred[0][3]))
  if cz.ret is None or cz.ret[1] != ('kept',):
    rep.unknown(R, key + ':returns-centred-rows', site(f), 'the second '
                'returned value is not the array of kept rows that was '
                'centred')
  else:
    rep.derived(R, key + ':returns-centred-rows', site(f))
  m = cz.ret[0] if cz.ret else ('?',)
  if m == ('known',):
    rep.derived(R, key + ':mask', site(f))
  elif m[0] == 'badmask':
    rep.refuted(R, key + ':mask', site(f), 'chunk mask is %s' % m[1])
  else:
    rep.unknown(R, key + ':mask', site(f), 'returned mask not recognised')
  if len(cz.loops) != 1:
    rep.unknown(Rl, key + ':loop', site(f), '%d loops' % len(cz.loops))
  else:
    ids, lp = cz.loops[0]
    if ids in (('ids', 'range-max+1'), ('ids', 'distinct')):
      rep.derived(Rl, key + ':loop', site(f, lp))
    elif ids == ('ids', 'range-distinct'):
      rep.refuted(Rl, key + ':loop', site(f, lp), 'the loop runs over '
                  'range(<number of distinct ids>): chunk ids with gaps '
                  '(e.g. {0, 3, 9}) are never centred')
    else:
      rep.unknown(Rl, key + ':loop', site(f, lp), 'loop over %s not '
                  'recognised' % ast.unparse(lp.iter))
  # the inner covariance is the average within-chunk covariance (1/N)
  Rb = 'R-FORM:rca-inner-covariance'
  rep.rule(Rb, 'RCA\'s inner covariance is np.cov(<chunk-centred data>, '
           'rowvar=0, bias=1): the average (1/N, not 1/(N-1)) within-chunk '
           'covariance')
  h = repo.get_func('rca.RCA.fit')
  ic = [n for n in ast.walk(h.node) if isinstance(n, ast.Call) and
        (repo.dotted(h.module, n.func) or '').endswith('numpy.cov')]
  centred = set()
  for n in ast.walk(h.node):
    if isinstance(n, ast.Assign) and isinstance(n.value, ast.Call) and \
            (repo.dotted(h.module, n.value.func) or '').endswith(
                '_chunk_mean_centering') and \
            isinstance(n.targets[0], ast.Tuple):
      centred.add(ast.unparse(n.targets[0].elts[1]))
  inner = [c_ for c_ in ic if c_.args and ast.unparse(c_.args[0]) in centred]
  if not inner:
    rep.unknown(Rb, 'rca.RCA.fit', site(h), 'covariance of the centred data '
                'not found')
  for c_ in inner:
    kw = {k.arg: ast.unparse(k.value) for k in c_.keywords}
    ok = kw.get('bias') in ('1', 'True') and 'ddof' not in kw
    rep.add(Rb, 'rca.RCA.fit:inner_cov', 'derived' if ok else 'refuted',
            site(h, c_), '' if ok else 'inner covariance computed with %s '
            '(documented: average within-chunk covariance, bias=1)' % kw)
  # inverse square root: spectral form V Diag(w^-1/2) V^T
  R2 = 'R-FORM:rca-inverse-square-root'
  rep.rule(R2, '_inv_sqrtm(x) is V Diag(w^(-1/2)) V^T for (w, V) = eigh(x)')
  g = repo.get_func('rca._inv_sqrtm')
  rep.analysed(g)
  Poly.ORTHO.clear()
  dom = AlgDomain()
  flow = Engine(repo, dom).run(g, args={'x': V(Poly.sym('S', 'mat',
                                                        symmetric=True))})
  wn, vn = 'w(S)', 'V(S)'
  Vp = Poly({(A(vn, 'mat'),): Fraction(1)}, 'mat')
  want = Vp.mul(Poly.diag(SExpr.base(('w', wn)).pow(Fraction(-1, 2))),
                'mat').mul(Vp.transpose(), 'mat')
  for (v, st, node) in flow.returns:
    if v.d is UNKNOWN:
      rep.unknown(R2, 'rca._inv_sqrtm', site(g, node), 'form not derivable')
    elif v.d == want:
      rep.derived(R2, 'rca._inv_sqrtm', site(g, node),
                  sample=dict(rule=R2, form=repr(v.d)))
    else:
      rep.refuted(R2, 'rca._inv_sqrtm', site(g, node),
                  '_inv_sqrtm normalises to %r, documented %r' % (v.d, want))


def rule_rca_whitening(repo, rep):
  """W C W^T = I for the stored transformation W and the inner covariance C,
  derived from the single identity isq(S) S isq(S) = I (the spectral form of
  _inv_sqrtm, certified by R-FORM:rca-inverse-square-root)."""
  R = 'R-FORM:rca-whitens-the-inner-covariance'
  rep.rule(R, 'on every path of RCA.fit the stored transformation has the '
           'form W = _inv_sqrtm(S) R with R C R^T = S for the inner '
           'covariance C (R = I, S = C without reduction; R = A^T, '
           'S = A^T C A with it), so that W C W^T = I')
  h = repo.get_func('rca.RCA.fit')
  rep.analysed(h)
  isq_args = {}
  counter = [0]

  def dn(e):
    d = repo.dotted(h.module, e)
    return canon(d) if d else None

  def opaque(kind, node):
    counter[0] += 1
    nm = 'o%d@%d' % (counter[0], getattr(node, 'lineno', 0))
    if kind == 'vec':
      return ('vec', SExpr.base(('w', nm)))
    return (kind, Poly.sym(nm, 'mat') if kind == 'mat' else None)

  def ev(e, env):
    if isinstance(e, ast.Name):
      return env.get(e.id) or ('?', None)
    if isinstance(e, ast.Attribute) and e.attr == 'T':
      k, v = ev(e.value, env)
      return (k, v.transpose()) if k == 'mat' else (k, v)
    if isinstance(e, ast.Attribute) and e.attr == 'real':
      return ev(e.value, env)
    if isinstance(e, ast.BinOp) and isinstance(e.op, ast.MatMult):
      (k1, a), (k2, b) = ev(e.left, env), ev(e.right, env)
      if k1 == k2 == 'mat':
        return ('mat', a.mul(b, 'mat'))
      return ('?', None)
    if isinstance(e, ast.BinOp) and isinstance(e.op, (ast.Div, ast.Mult)):
      (k1, a), (k2, b) = ev(e.left, env), ev(e.right, env)
      if k1 == 'mat' and k2 == 'vec':
        # column scaling: M * v = M Diag(v), M / v = M Diag(v)^-1
        sx = b if isinstance(e.op, ast.Mult) else b.pow(Fraction(-1))
        return ('mat', a.mul(Poly.diag(sx), 'mat'))
      return ('?', None)
    if isinstance(e, ast.Call):
      d = dn(e.func)
      args = list(e.args)
      if isinstance(e.func, ast.Attribute) and e.func.attr == 'dot' and \
              d is None and len(args) == 1:
        args = [e.func.value, args[0]]
        d = canon('numpy.dot')
      if d == canon('numpy.dot') and len(args) == 2:
        (k1, a), (k2, b) = ev(args[0], env), ev(args[1], env)
        if k1 == k2 == 'mat':
          return ('mat', a.mul(b, 'mat'))
        return ('?', None)
      if d in (canon('numpy.atleast_2d'), canon('numpy.asarray'),
               canon('numpy.array')) and len(args) == 1:
        return ev(args[0], env)
      if d == canon('numpy.sqrt') and len(args) == 1:
        k, v = ev(args[0], env)
        if k == 'vec':
          return ('vec', v.pow(Fraction(1, 2)))
        return ('?', None)
      if d == canon('numpy.cov'):
        counter[0] += 1
        return ('mat', Poly.sym('cov@%d' % e.lineno, 'mat', symmetric=True))
      if d in (canon('numpy.diag'), canon('numpy.diagonal')) and \
              len(args) == 1 and ev(args[0], env)[0] == 'mat':
        return opaque('vec', e)
      if d == canon('numpy.einsum') and args and \
              isinstance(args[0], ast.Constant) and \
              isinstance(args[0].value, str) and '->' in args[0].value:
        out = args[0].value.split('->')[1].strip()
        return opaque('vec' if len(out) == 1 else
                      'mat' if len(out) == 2 else '?', e)
      fn = repo.func_by_dotted(repo.dotted(h.module, e.func) or '')
      if fn is not None and fn.key == 'rca._inv_sqrtm' and len(args) == 1:
        k, v = ev(args[0], env)
        if k == 'mat':
          nm = 'isq[%r]' % (v,)
          isq_args[nm] = v
          return ('mat', Poly.sym(nm, 'mat', symmetric=True))
        return ('?', None)
      if isinstance(e.func, ast.Attribute) and e.func.attr == 'diagonal' \
              and ev(e.func.value, env)[0] == 'mat':
        return opaque('vec', e)
    if isinstance(e, ast.Subscript):
      # a selection of columns / rows of a matrix: an unconstrained matrix
      return opaque('mat', e)
    if isinstance(e, ast.Call):
      # result of a call outside the table: an unconstrained matrix whose
      # origin is unknown (never the basis of a refutation)
      counter[0] += 1
      return ('mat', Poly.sym('unk%d@%d' % (counter[0], e.lineno), 'mat'))
    return ('?', None)

  stores = []

  def walk(body, env, cov_sym):
    for i, st in enumerate(body):
      if isinstance(st, ast.If):
        for br in (st.body, st.orelse):
          walk(list(br) + list(body[i + 1:]), dict(env), cov_sym)
        return
      if isinstance(st, ast.Assign) and len(st.targets) == 1:
        tg = st.targets[0]
        if isinstance(tg, ast.Name):
          val = ev(st.value, env)
          env[tg.id] = val
          if cov_sym[0] is None and isinstance(st.value, ast.Call) and \
                  any(dn(c.func) == canon('numpy.cov') and c.args and
                      ast.unparse(c.args[0]) in centred
                      for c in ast.walk(st.value) if isinstance(c, ast.Call)):
            cov_sym = [val]
        elif isinstance(tg, ast.Tuple):
          for el in tg.elts:
            if isinstance(el, ast.Name):
              env[el.id] = opaque('mat', st)
        elif ast.unparse(tg) == 'self.components_':
          stores.append((st, ev(st.value, env), cov_sym[0]))
      elif isinstance(st, ast.Return):
        return

  centred = set()
  for n in ast.walk(h.node):
    if isinstance(n, ast.Assign) and isinstance(n.value, ast.Call) and \
            (repo.dotted(h.module, n.value.func) or '').endswith(
                '_chunk_mean_centering') and \
            isinstance(n.targets[0], ast.Tuple):
      centred.add(ast.unparse(n.targets[0].elts[1]))
  walk(h.node.body, {}, [None])
  if not stores:
    rep.unknown(R, 'rca.RCA.fit', site(h), 'no store of components_ found')
  for k_, (st, (kind, W), C) in enumerate(stores):
    key = 'rca.RCA.fit:store%d' % k_
    if C is None or C[0] != 'mat':
      rep.unknown(R, key, site(h, st), 'inner covariance not identified')
      continue
    if kind != 'mat':
      rep.unknown(R, key, site(h, st), 'stored expression %s is outside the '
                  'matrix forms evaluated' % ast.unparse(st.value))
      continue
    T = W.mul(C[1], 'mat').mul(W.transpose(), 'mat')
    ok = False
    if len(T.terms) == 1:
      (m, c), = T.terms.items()
      if c == 1 and len(m) >= 3 and m[0] == m[-1] and m[0][0] == 's' and \
              m[0][1] in isq_args:
        ok = Poly({tuple(m[1:-1]): Fraction(1)}, 'mat') == isq_args[m[0][1]]
    if ok:
      rep.derived(R, key, site(h, st), sample=dict(rule=R, W=repr(W)))
    elif 'unk' in repr(W):
      rep.unknown(R, key, site(h, st), 'W = %r involves the result of a call '
                  'outside the evaluated forms' % (W,))
    else:
      rep.refuted(R, key, site(h, st), 'W C W^T = %r does not reduce to the '
                  'identity by isq(S) S isq(S) = I (W = %r)' % (T, W))
  rep.floor('RCA stores of components_', len(stores), 2)


def rule_lfda(repo, rep):
  R = 'R-FORM:lfda-ordering-and-embedding'
  rep.rule(R, 'LFDA keeps the eigenvectors in order of decreasing eigenvalue '
           '(argsort of the negated values, prefix :dim), stores vecs.T, and '
           'handles exactly the three documented embedding_type values')
  c = repo.get_class('LFDA')
  f = repo.resolve_method(c, 'fit')
  rep.analysed(f)
  def argsort_chain(e):
    """(argsort call, [slices outermost last]) for call[...][...]"""
    sl = []
    while isinstance(e, ast.Subscript):
      sl.append(e.slice)
      e = e.value
    if isinstance(e, ast.Call) and (repo.dotted(f.module, e.func) or
                                    '').endswith('argsort'):
      return e, list(reversed(sl))
    return None, None
  orders = []
  for n in ast.walk(f.node):
    if isinstance(n, ast.Assign) and isinstance(n.targets[0], ast.Name):
      call, sl = argsort_chain(n.value)
      if call is not None and sl:
        orders.append((n, call, sl))
  if not orders:
    rep.unknown(R, 'LFDA.fit:order', site(f), 'ordering statement not found')
  for (n, call, sl) in orders:
    arg = call.args[0]
    desc = isinstance(arg, ast.UnaryOp) and isinstance(arg.op, ast.USub)
    nrev = 0
    prefix = False
    bad = False
    for s_ in sl:
      if isinstance(s_, ast.Slice) and s_.lower is None and \
              s_.upper is None and s_.step is not None and \
              ast.unparse(s_.step) == '-1':
        if prefix:
          bad = True          # reversing after truncation keeps the smallest
        nrev += 1
      elif isinstance(s_, ast.Slice) and s_.lower is None and \
              s_.step is None and s_.upper is not None:
        prefix = True
      else:
        bad = True
    decreasing = (desc != (nrev % 2 == 1))
    if bad:
      rep.unknown(R, 'LFDA.fit:order', site(f, n), 'unrecognised selection '
                  '%s' % ast.unparse(n.value))
    elif decreasing and prefix:
      rep.derived(R, 'LFDA.fit:order', site(f, n))
    else:
      rep.refuted(R, 'LFDA.fit:order', site(f, n), 'eigenvalues are not '
                  'taken in decreasing order: %s' % ast.unparse(n.value))
  stores = [n for n in ast.walk(f.node) if isinstance(n, ast.Assign) and
            ast.unparse(n.targets[0]) == 'self.components_']
  for n in stores:
    if isinstance(n.value, ast.Attribute) and n.value.attr == 'T':
      rep.derived(R, 'LFDA.fit:components', site(f, n))
    else:
      rep.refuted(R, 'LFDA.fit:components', site(f, n), 'components_ = %s '
                  '(eigenvectors are the columns of vecs)'
                  % ast.unparse(n.value))
  # embedding table
  init = repo.resolve_method(c, '__init__')
  accepted = set()
  for n in ast.walk(init.node):
    if isinstance(n, ast.Compare) and isinstance(n.ops[0], (ast.NotIn,
                                                            ast.In)) and \
            ast.unparse(n.left) == 'embedding_type':
      for e in n.comparators[0].elts:
        accepted.add(e.value)
  handled = set()
  for n in ast.walk(f.node):
    if isinstance(n, ast.Compare) and isinstance(n.ops[0], ast.Eq) and \
            ast.unparse(n.left) == 'self.embedding_type' and \
            isinstance(n.comparators[0], ast.Constant):
      handled.add(n.comparators[0].value)
  doc = {'weighted', 'orthonormalized', 'plain'}
  if accepted == doc and handled <= doc and {'weighted',
                                             'orthonormalized'} <= handled:
    rep.derived(R, 'LFDA:embedding_type-table', site(init))
  else:
    rep.refuted(R, 'LFDA:embedding_type-table', site(init),
                'constructor accepts %s, fit handles %s, documented %s'
                % (sorted(accepted), sorted(handled), sorted(doc)))
  # weighted: scale by sqrt(vals); orthonormalized: qr
  for n in ast.walk(f.node):
    if isinstance(n, ast.If) and isinstance(n.test, ast.Compare) and \
            ast.unparse(n.test.left) == 'self.embedding_type':
      node = n
      while True:
        lit = node.test.comparators[0].value
        body = ' '.join(ast.unparse(s) for s in node.body)
        if lit == 'weighted':
          # names by role: eigenvectors = what is stored transposed,
          # eigenvalues = what was arg-sorted
          vecn = [ast.unparse(n_.value.value) for n_ in stores
                  if isinstance(n_.value, ast.Attribute)]
          valn = []
          for (_n, call_, _sl) in orders:
            a_ = call_.args[0]
            if isinstance(a_, ast.UnaryOp):
              a_ = a_.operand
            valn.append(ast.unparse(a_))
          ok = False
          for s_ in node.body:
            if isinstance(s_, ast.AugAssign) and isinstance(s_.op, ast.Mult) \
                    and ast.unparse(s_.target) in vecn and \
                    ast.unparse(s_.value) in ['np.sqrt(%s)' % v for v in valn]:
              ok = True
            if isinstance(s_, ast.Assign) and \
                    ast.unparse(s_.targets[0]) in vecn and \
                    ast.unparse(s_.value) in [
                        '%s * np.sqrt(%s)' % (a, v) for a in vecn
                        for v in valn] + ['np.sqrt(%s) * %s' % (v, a)
                                          for a in vecn for v in valn]:
              ok = True
          rep.add(R, 'LFDA.fit:weighted', 'derived' if ok else 'refuted',
                  site(f, node), '' if ok else 'weighted embedding: ' + body)
        if lit == 'orthonormalized':
          ok = 'qr(' in body
          rep.add(R, 'LFDA.fit:orthonormalized', 'derived' if ok else
                  'refuted', site(f, node), '' if ok else body)
        if len(node.orelse) == 1 and isinstance(node.orelse[0], ast.If):
          node = node.orelse[0]
        else:
          break
      break


# ------------------------------------------------ LFDA scatter accumulation
from ..ratfunc import Rat, LinM, eval_expr


def rule_lfda_scatter(repo, rep):
  R = 'R-FORM:lfda-scatter-accumulation'
  rep.rule(R, 'the statements accumulating LFDA\'s scatter matrices, '
           'evaluated as linear combinations of the atoms G_c, Xc^T Xc, '
           's_c s_c^T, s s^T with rational coefficients in n and n_c, equal '
           'the pairwise-defined local scatters: S_w = sum_c G_c / n_c and '
           'S_b = sum_c [G_c / n + (1 - n_c / n) Xc^T Xc + s_c s_c^T / n] - '
           's s^T / n - S_w (reference: the algebraic expansion of '
           '1/2 sum_ij W_ij (x_i - x_j)(x_i - x_j)^T)')
  c = repo.get_class('LFDA')
  f0 = repo.resolve_method(c, 'fit')
  # roles are discovered from definitions and uses, then the body is matched
  # under canonical names (tSb, tSw, n, d, nc, Xc, G, A)
  roles = {}
  for n_ in ast.walk(f0.node):
    if isinstance(n_, ast.Call) and (repo.dotted(f0.module, n_.func) or
                                     '').endswith('lfda._eigh') and \
            len(n_.args) >= 2 and all(isinstance(a, ast.Name)
                                      for a in n_.args[:2]):
      roles[n_.args[0].id] = 'tSb'
      roles[n_.args[1].id] = 'tSw'
    if isinstance(n_, ast.Assign) and isinstance(n_.targets[0], ast.Tuple) \
            and ast.unparse(n_.value) == 'X.shape' and \
            len(n_.targets[0].elts) == 2 and \
            all(isinstance(e, ast.Name) for e in n_.targets[0].elts):
      roles[n_.targets[0].elts[0].id] = 'n'
      roles[n_.targets[0].elts[1].id] = 'd'
  sb = [k for k, v in roles.items() if v in ('tSb', 'tSw')]
  loops0 = [n for n in ast.walk(f0.node) if isinstance(n, ast.For) and
            any(isinstance(s_, ast.AugAssign) and
                ast.unparse(s_.target) in sb for s_ in n.body)]
  if len(loops0) == 1:
    for s_ in loops0[0].body:
      if isinstance(s_, ast.Assign) and isinstance(s_.targets[0], ast.Name):
        v_ = s_.value
        if isinstance(v_, ast.Subscript) and ast.unparse(v_.value) == 'X':
          roles[s_.targets[0].id] = 'Xc'
    xc = [k for k, v in roles.items() if v == 'Xc']
    incs = [s_ for s_ in loops0[0].body if isinstance(s_, ast.AugAssign) and
            ast.unparse(s_.target) in sb]
    for s_ in loops0[0].body:
      if isinstance(s_, ast.Assign) and isinstance(s_.targets[0], ast.Name) \
              and xc and ast.unparse(s_.value) in ('%s.shape[0]' % xc[0],
                                                   'len(%s)' % xc[0]):
        roles[s_.targets[0].id] = 'nc'
    if len(incs) >= 2:
      common = None
      for s_ in incs:
        nm = set(x.id for x in ast.walk(s_.value) if isinstance(x, ast.Name))
        common = nm if common is None else common & nm
      common = [x for x in (common or ()) if x not in roles and x != 'np' and
                x not in ('X',)]
      if len(common) == 1:
        roles[common[0]] = 'G'
        gd = [s_ for s_ in loops0[0].body if isinstance(s_, ast.Assign) and
              ast.unparse(s_.targets[0]) == common[0]]
    # the affinity matrix: the loop-local matrix whose row / column sums are
    # taken
    assigned = set(s_.targets[0].id for s_ in ast.walk(loops0[0])
                   if isinstance(s_, ast.Assign) and
                   isinstance(s_.targets[0], ast.Name))
    for x in ast.walk(loops0[0]):
      if isinstance(x, ast.Call) and isinstance(x.func, ast.Attribute) \
              and x.func.attr == 'sum' and \
              isinstance(x.func.value, ast.Name) and \
              x.func.value.id in assigned and \
              x.func.value.id not in roles:
        roles[x.func.value.id] = 'A'
  f = astutil.role_view(f0, roles)
  if f is None:
    rep.unknown(R, 'LFDA.fit', site(f0), 'roles %s cannot be given canonical '
                'names without conflating variables' % roles)
    return
  loops = [n for n in ast.walk(f.node) if isinstance(n, ast.For) and
           any(isinstance(s, ast.AugAssign) and
               ast.unparse(s.target) in ('tSb', 'tSw') for s in n.body)]
  if len(loops) != 1:
    rep.unknown(R, 'LFDA.fit', site(f0), 'class loop not recognised')
    return
  loop = loops[0]
  skips = [b for b in ast.walk(loop) if isinstance(b, (ast.Continue,
                                                        ast.Break))]
  if skips:
    rep.refuted(R, 'LFDA.fit:every-class-contributes', site(f, skips[0]),
                'the class loop skips classes under %s: their points still '
                'count in s s^T / n, so the scatters are no longer the '
                'pairwise-defined ones' % astutil.path_condition(loop,
                                                                 skips[0]))
  else:
    rep.derived(R, 'LFDA.fit:every-class-contributes', site(f, loop))
  # n and nc must be the sample counts
  defs = {}
  for n_ in ast.walk(f.node):
    if isinstance(n_, ast.Assign):
      defs[ast.unparse(n_.targets[0])] = ast.unparse(n_.value)
  ok_counts = (defs.get('(n, d)') or defs.get('n, d')) == 'X.shape' and \
      defs.get('nc') in ('Xc.shape[0]', 'len(Xc)')
  if not ok_counts:
    rep.unknown(R, 'LFDA.fit:counts', site(f), 'n / nc are not the sample '
                'counts (n, d = X.shape; nc = Xc.shape[0])')
    return
  # symbolic evaluation in the algebra of words over Xc, A (symmetric), the
  # ones vector and Diag(.), with coefficients rational in n and n_c
  from ..ncalg import NC, NCEval
  from ..ratfunc import Rat

  def canon_of(e):
    d = repo.dotted(f.module, e)
    return canon(d) if d else None

  def helper(call):
    g = repo.func_by_dotted(repo.dotted(f.module, call.func) or '')
    if g is None or g.cls is not None:
      return None
    return g.params(), g.node.body
  one = Rat.const(1)
  n_, nc_ = Rat.sym('n'), Rat.sym('nc')
  Xc, Am, Xall = NC.atom('Xc'), NC.atom('A', symmetric=True), NC.atom('X')
  ev = NCEval({'Xc': Xc, 'A': Am, 'X': Xall}, {'n': n_, 'nc': nc_},
              canon_of, helper)
  D = Am.mul(NC.ones())
  from ..ncalg import _diag
  Gw = Xc.T().mul(_diag(D)).mul(Xc).add(Xc.T().mul(Am).mul(Xc), -1)
  ss_c = Xc.T().mul(NC.ones()).mul(NC.ones().T()).mul(Xc)
  ss_all = Xall.T().mul(NC.ones()).mul(NC.ones().T()).mul(Xall)
  want_b = Gw.scale(one / n_).add(
      Xc.T().mul(Xc).scale(one - nc_ / n_)).add(ss_c.scale(one / n_))
  want_w = Gw.scale(one / nc_)
  # statements of the class loop in order: temporaries, then the increments
  inc = {}
  for s_ in loop.body:
    if isinstance(s_, ast.Assign) and len(s_.targets) == 1 and \
            isinstance(s_.targets[0], ast.Name) and \
            s_.targets[0].id not in ('Xc', 'A', 'nc'):
      v = ev.ev(s_.value)
      if isinstance(v, NC):
        ev.mats[s_.targets[0].id] = v
      elif isinstance(v, Rat):
        ev.scalars[s_.targets[0].id] = v
      else:
        ev.mats.pop(s_.targets[0].id, None)
    elif isinstance(s_, ast.AugAssign) and isinstance(s_.op, ast.Add) and \
            ast.unparse(s_.target) in ('tSb', 'tSw'):
      inc[ast.unparse(s_.target)] = (ev.ev(s_.value), s_)
  for name, want in (('tSb', want_b), ('tSw', want_w)):
    if name not in inc or not isinstance(inc[name][0], NC):
      rep.unknown(R, 'LFDA.fit:%s-increment' % name, site(f),
                  'per-class increment not derivable')
    elif inc[name][0] == want:
      rep.derived(R, 'LFDA.fit:%s-increment' % name, site(f, inc[name][1]),
                  sample=dict(rule=R, statement=ast.unparse(inc[name][1]),
                              normal_form=repr(inc[name][0])))
    else:
      rep.refuted(R, 'LFDA.fit:%s-increment' % name, site(f, inc[name][1]),
                  'per-class increment of %s is %r, the pairwise definition '
                  'gives %r' % (name, inc[name][0], want))
  # the adjustment after the loop, in terms of the accumulated sums
  body = f.node.body
  post = [s_ for s_ in body if isinstance(s_, (ast.AugAssign, ast.Assign)) and
          getattr(s_, 'lineno', 0) > loop.end_lineno and
          ast.unparse(s_.target if isinstance(s_, ast.AugAssign)
                      else s_.targets[0]) == 'tSb' and
          'tSw' in [x.id for x in ast.walk(s_.value)
                    if isinstance(x, ast.Name)] and
          'tSw.T' not in ast.unparse(s_.value)]
  if not post:
    rep.unknown(R, 'LFDA.fit:tSb-final', site(f), 'final adjustment of tSb '
                'not found')
    return
  s_ = post[0]
  Sw, SbAcc = NC.atom('SwAcc'), NC.atom('SbAcc')
  ev2 = NCEval({'X': Xall, 'tSw': Sw, 'tSb': SbAcc}, {'n': n_},
               canon_of, helper)
  # temporaries defined between the loop and the adjustment
  for t_ in body:
    if isinstance(t_, ast.Assign) and len(t_.targets) == 1 and \
            isinstance(t_.targets[0], ast.Name) and \
            loop.end_lineno < t_.lineno < s_.lineno and \
            t_.targets[0].id not in ('tSb', 'tSw'):
      v = ev2.ev(t_.value)
      if isinstance(v, NC):
        ev2.mats[t_.targets[0].id] = v
  v = ev2.ev(s_.value)
  if not isinstance(v, NC):
    rep.unknown(R, 'LFDA.fit:tSb-final', site(f, s_), 'not derivable')
    return
  if isinstance(s_, ast.AugAssign):
    total = SbAcc.add(v, 1 if isinstance(s_.op, ast.Add) else -1)
  else:
    total = v
  want = SbAcc.add(ss_all.scale(one / n_), -1).add(Sw, -1)
  if total == want:
    rep.derived(R, 'LFDA.fit:tSb-final', site(f, s_))
  else:
    rep.refuted(R, 'LFDA.fit:tSb-final', site(f, s_), 'the between-class '
                'scatter is finished as %r, the pairwise definition gives %r '
                '(statement: %s)' % (total, want, ast.unparse(s_)))


def check(repo, rep, tier):
  rule_order_statistics(repo, rep)
  rule_cov_sites(repo, rep)
  rule_covariance(repo, rep)
  rule_rca(repo, rep)
  rule_rca_whitening(repo, rep)
  rule_lfda(repo, rep)
  rule_lfda_scatter(repo, rep)


