"""C02 - all views of the learned metric agree with M = L^T L."""
from .c01 import check_views


def check(repo, rep, tier):
  check_views(repo, rep, 'C02')
