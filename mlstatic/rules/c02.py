"""C02 - all views of the learned metric agree with M = L^T L."""
from .c01 import check_views, QUERY_VIEWS


def check(repo, rep, tier):
  check_views(repo, rep, 'C02')
  # "integer-dtype query arrays" are in the quantifier: the views agree only
  # if none of them computes x - x' in the integer dtype of the query
  from . import c06
  c06.rule_int_arith(repo, rep, methods=QUERY_VIEWS)
  # pair_distance agrees with the other views on EVERY pair of a batch
  from . import c06b
  c06b.rule_pair_distance_covers(repo, rep)
