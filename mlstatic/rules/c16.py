"""C16 - threshold calibration picks an optimal cut-off.

Optimality itself quantifies over the validation multiset.  What is decided
here are the structural necessary conditions of it that live in the shape of
calibrate_threshold (base_metric._PairsClassifierMixin):

  * the criterion each strategy maximises is the documented one, as a
    function of the cut position (accuracy: positional-count algebra below)
    or as an exact rational function (F-beta) / a normalised admissibility
    comparison and objective (max_tpr / max_tnr);
  * the candidate cut-offs are all and only the attainable ones: positions
    inside a group of tied scores are excluded (accuracy), no candidate of
    the ROC curve is dropped (drop_intermediate=False);
  * the stored threshold is minus the candidate score at the chosen index,
    candidates and criterion are aligned position by position;
  * parameters are validated before any work, fit hands its
    calibration_params to calibrate_threshold on the training pairs.

Positional-count algebra (accuracy branch).  With the scores sorted in
decreasing order (S, labels Y in the same order, n of them), a cut c in
0..n accepts positions < c.  Every vector of the branch is described entry
by entry, j being the entry index:
  ('elem', src, m, pos)        entry j = src[pos(j)]     (src in 'S', 'Y')
  ('ind', val, m, pos)         entry j = [Y[pos(j)] == val]
  ('lin', m, {(val, k): c}, c0) entry j = sum c * P_val(k(j)) + c0, where
                               P_val(k) = #{i <= k : Y[i] == val}
  ('att', m, cut)              entry j = [cut(j) is attainable]
with m, pos, k, cut affine in (j, n).  P_val(-1) = 0 and P_val(n-1) is the
constant N_val, so prefix and suffix formulations normalise to the same
form.
"""
import ast
from fractions import Fraction
from ..model import canon
from ..ratfunc import Rat, eval_expr
from .. import astutil, guards
from .common import site
from . import c06

FN = 'base_metric._PairsClassifierMixin.calibrate_threshold'


# ------------------------------------------------------------ affine forms
class Aff:
  """a*j + b*n + c"""
  __slots__ = ('a', 'b', 'c')

  def __init__(self, a=0, b=0, c=0):
    self.a, self.b, self.c = a, b, c

  def key(self):
    return (self.a, self.b, self.c)

  def __eq__(self, o):
    return isinstance(o, Aff) and self.key() == o.key()

  def __hash__(self):
    return hash(self.key())

  def __add__(self, o):
    o = o if isinstance(o, Aff) else Aff(0, 0, o)
    return Aff(self.a + o.a, self.b + o.b, self.c + o.c)

  def __neg__(self):
    return Aff(-self.a, -self.b, -self.c)

  def __sub__(self, o):
    return self + (-(o if isinstance(o, Aff) else Aff(0, 0, o)))

  def subst_j(self, e):
    """replace j by the affine form e"""
    return Aff(self.a * e.a, self.b + self.a * e.b, self.c + self.a * e.c)

  def at(self, jval):
    """value at entry j = jval (an Aff without j)"""
    return self.subst_j(jval)

  def __repr__(self):
    bits = []
    for co, nm in ((self.a, 'j'), (self.b, 'n')):
      if co:
        bits.append(('%s' % nm) if co == 1 else ('-%s' % nm) if co == -1
                    else '%d%s' % (co, nm))
    if self.c or not bits:
      bits.append(str(self.c))
    return '+'.join(bits).replace('+-', '-')


J, N = Aff(1, 0, 0), Aff(0, 1, 0)


def K(c):
  return Aff(0, 0, c)


class Unknown(Exception):
  pass


class Different(Exception):
  """A construct that is understood and is not the documented one."""


# ------------------------------------------------------------ the evaluator
class Acc:
  """Symbolic evaluation of the straight-line accuracy branch."""

  def __init__(self, repo, f, names):
    self.repo, self.f = repo, f
    self.env = dict(names)
    self.depth = 0

  def dn(self, e):
    d = self.repo.dotted(self.f.module, e)
    return canon(d) if d else None

  # -- helpers on vectors
  @staticmethod
  def length(v):
    return v[2] if v[0] in ('elem', 'ind') else v[1]

  @staticmethod
  def remap(v, e, m):
    """vector whose entry j is entry e(j) of v, with length m"""
    k = v[0]
    if k == 'elem':
      return ('elem', v[1], m, v[3].subst_j(e)) + tuple(v[4:])
    if k == 'ind':
      return ('ind', v[1], m, v[3].subst_j(e))
    if k == 'lin':
      return ('lin', m, {(val, kk.subst_j(e)): c
                         for (val, kk), c in v[2].items()}, v[3])
    if k == 'att':
      return ('att', m, v[2].subst_j(e))
    raise Unknown('cannot re-index %r' % (k,))

  def scalar_sign(self, e):
    """'pos' for an expression known to be a positive scalar"""
    if isinstance(e, ast.Constant) and isinstance(e.value, (int, float)) and \
            not isinstance(e.value, bool):
      return 'pos' if e.value > 0 else None
    v = self.env.get(ast.unparse(e))
    if v == ('nsamples',):
      return 'pos'
    if isinstance(e, ast.Subscript) and isinstance(e.value, ast.Attribute) \
            and e.value.attr == 'shape' and ast.unparse(e.slice) == '0' and \
            isinstance(e.value.value, ast.Name) and \
            self.env.get(e.value.value.id, ('?',))[0] in ('elem', 'lin'):
      return 'pos'
    if isinstance(e, ast.Call) and isinstance(e.func, ast.Name) and \
            e.func.id == 'len' and len(e.args) == 1 and \
            isinstance(e.args[0], ast.Name) and \
            self.env.get(e.args[0].id, ('?',))[0] in ('elem', 'lin'):
      return 'pos'
    t = ast.unparse(e)
    if t in ('len(y_valid)', 'len(scores)', 'y_valid.shape[0]',
             'pairs_valid.shape[0]', 'scores.shape[0]', 'len(pairs_valid)',
             'float(n_samples)'):
      return 'pos'
    return None

  def ev(self, e):
    if isinstance(e, ast.Name):
      if e.id in self.env:
        return self.env[e.id]
      raise Unknown('name %s has no evaluated definition' % e.id)
    if isinstance(e, ast.Constant):
      return ('const', e.value)
    if isinstance(e, ast.UnaryOp) and isinstance(e.op, ast.USub):
      v = self.ev(e.operand)
      if v == ('scores',):
        return ('negscores',)
      if v[0] == 'const' and isinstance(v[1], (int, float)):
        return ('const', -v[1])
      if v[0] == 'pick':
        return ('negpick',) + v[1:]
      raise Unknown('negation of %r' % (v[0],))
    if isinstance(e, ast.UnaryOp) and isinstance(e.op, ast.Invert) and \
            isinstance(e.operand, ast.Call) and \
            self.dn(e.operand.func) in (canon('numpy.isclose'),
                                        canon('numpy.allclose')):
      raise Different('neighbouring scores are compared with a tolerance '
                      '(%s): cuts between scores closer than the tolerance '
                      'are excluded although predict separates them'
                      % ast.unparse(e))
    if isinstance(e, ast.Attribute) and e.attr == 'shape':
      raise Unknown('shape')
    if isinstance(e, ast.Subscript):
      return self.ev_subscript(e)
    if isinstance(e, ast.Compare) and len(e.ops) == 1:
      a, b = self.ev(e.left), self.ev(e.comparators[0])
      op = e.ops[0]
      if a[0] == 'elem' and a[1] == 'Y' and b[0] == 'const' and \
              isinstance(op, ast.Eq):
        return ('ind', b[1], a[2], a[3])
      if a[0] == 'elem' and b[0] == 'elem' and a[1] == b[1] == 'S' and \
              isinstance(op, ast.NotEq) and a[2] == b[2]:
        lo, hi = (a, b) if (b[3] - a[3]) == K(1) else (b, a)
        if (hi[3] - lo[3]) != K(1):
          raise Different('scores compared at positions %r and %r: not '
                          'neighbours in the sorted order' % (a[3], b[3]))
        # S[p] != S[p+1]: the cut accepting positions < p+1 is attainable;
        # p = -1 is the reject-all candidate placed above the maximum
        if lo[3].at(K(0)) == K(-1) and lo[4:] != ('above',):
          raise Unknown('position -1 read without a reject-all entry')
        return ('att', a[2], hi[3])
      raise Unknown('comparison %s' % ast.unparse(e))
    if isinstance(e, ast.BinOp):
      return self.ev_binop(e)
    if isinstance(e, ast.List) and len(e.elts) == 1:
      return ('list1', self.ev(e.elts[0]))
    if isinstance(e, ast.Call):
      return self.ev_call(e)
    raise Unknown(type(e).__name__)

  def ev_binop(self, e):
    if isinstance(e.op, (ast.Div, ast.Mult)):
      # positive scaling of a criterion does not move its arg-max
      cands = [(e.left, e.right)]
      if isinstance(e.op, ast.Mult):
        cands.append((e.right, e.left))
      for vec_e, sc_e in cands:
        if self.scalar_sign(sc_e) == 'pos':
          v = self.ev(vec_e)
          if v[0] == 'lin':
            return v
      raise Unknown('scaling %s' % ast.unparse(e))
    a, b = self.ev(e.left), self.ev(e.right)
    if isinstance(e.op, (ast.Add, ast.Sub)):
      sg = 1 if isinstance(e.op, ast.Add) else -1
      if a[0] == 'lin' and b[0] == 'lin' and a[1] == b[1]:
        t = dict(a[2])
        for k, c in b[2].items():
          t[k] = t.get(k, 0) + sg * c
        return ('lin', a[1], {k: c for k, c in t.items() if c}, a[3] + sg * b[3])
      if a[0] == 'lin' and b[0] == 'const':
        return ('lin', a[1], dict(a[2]), a[3] + sg * b[1])
      if a[0] == 'total' and b[0] == 'lin':
        # N_val - P_val(k): suffix count
        t = {k: sg * c for k, c in b[2].items()}
        t[(a[1], N - K(1))] = t.get((a[1], N - K(1)), 0) + 1
        return ('lin', b[1], {k: c for k, c in t.items() if c}, sg * b[3])
      if a[0] == 'pick' and b[0] == 'const' and a[1] == 'S' and \
              isinstance(b[1], (int, float)):
        off = sg * b[1]
        return ('pickoff', a[2], off)
      raise Unknown('sum of %r and %r' % (a[0], b[0]))
    raise Unknown('operator %s' % type(e.op).__name__)

  def ev_subscript(self, e):
    base = self.ev(e.value)
    sl = e.slice
    if isinstance(sl, ast.Slice):
      lo = sl.lower.value if isinstance(sl.lower, ast.Constant) else \
          None if sl.lower is None else 'x'
      hi = None if sl.upper is None else (
          -sl.upper.operand.value if isinstance(sl.upper, ast.UnaryOp) and
          isinstance(sl.upper.op, ast.USub) and
          isinstance(sl.upper.operand, ast.Constant) else
          sl.upper.value if isinstance(sl.upper, ast.Constant) else 'x')
      st = None if sl.step is None else (
          -sl.step.operand.value if isinstance(sl.step, ast.UnaryOp) and
          isinstance(sl.step.op, ast.USub) and
          isinstance(sl.step.operand, ast.Constant) else
          sl.step.value if isinstance(sl.step, ast.Constant) else 'x')
      if (lo, hi, st) == (None, None, -1):
        if base[0] == 'perm':
          return ('perm', not base[1])
        m = self.length(base)
        return self.remap(base, m - K(1) - J, m)
      if (lo, hi, st) == (None, -1, None):
        m = self.length(base)
        return self.remap(base, J, m - K(1))
      if (lo, hi, st) == (1, None, None):
        m = self.length(base)
        return self.remap(base, J + K(1), m - K(1))
      raise Unknown('slice %s' % ast.unparse(sl))
    idx = self.ev(sl)
    if base == ('scores',) and idx[0] == 'perm':
      return ('elem', 'S', N, J if idx[1] else N - K(1) - J)
    if base == ('labels',) and idx[0] == 'perm':
      return ('elem', 'Y', N, J if idx[1] else N - K(1) - J)
    if base[0] == 'elem' and idx[0] == 'const' and isinstance(idx[1], int):
      j0 = K(idx[1]) if idx[1] >= 0 else base[2] + K(idx[1])
      return ('pick', base[1], base[3].at(j0))
    if base[0] == 'lin' and idx[0] == 'att' and base[1] == idx[1]:
      return ('masked', base, idx)
    if base[0] == 'where' and idx[0] == 'argmaxm' and base[1] == idx[2]:
      # positions of the mask, entry number arg-max of the masked vector
      return ('argmax', idx[1], idx[2])
    if base[0] == 'elem' and idx[0] == 'argmax':
      return ('pick_at', base, idx)
    raise Unknown('subscript %s' % ast.unparse(e))

  def ev_call(self, e):
    d = self.dn(e.func)
    t = ast.unparse(e.func)
    args = e.args
    if t == 'self.decision_function' and len(args) == 1:
      return ('scores',)
    if d == canon('numpy.argsort') and len(args) == 1 and not e.keywords:
      v = self.ev(args[0])
      if v == ('scores',):
        return ('perm', False)
      if v == ('negscores',):
        return ('perm', True)
      raise Unknown('argsort of %r' % (v,))
    if d == canon('numpy.flip') and len(args) == 1 and not e.keywords:
      base = self.ev(args[0])
      if base[0] == 'perm':
        return ('perm', not base[1])
      m = self.length(base)
      return self.remap(base, m - K(1) - J, m)
    if d in (canon('numpy.hstack'), canon('numpy.concatenate')) and \
            len(args) == 1 and isinstance(args[0], (ast.List, ast.Tuple)) and \
            len(args[0].elts) == 2:
      a, b = self.ev(args[0].elts[0]), self.ev(args[0].elts[1])
      # hstack accepts bare scalars where concatenate needs a one-element list
      if a[0] in ('const', 'pickoff', 'pick'):
        a = ('list1', a)
      if b[0] in ('const', 'pickoff', 'pick'):
        b = ('list1', b)
      return self.concat(a, b)
    if d == canon('numpy.append') and len(args) == 2 and not e.keywords:
      a, b = self.ev(args[0]), self.ev(args[1])
      if b[0] in ('const', 'pickoff', 'pick'):
        b = ('list1', b)
      return self.concat(a, b)
    # a private helper of the repository with a straight-line body: inline
    callee = None
    if isinstance(e.func, ast.Attribute) and \
            isinstance(e.func.value, ast.Name) and e.func.value.id == 'self' \
            and self.f.cls is not None:
      callee = self.repo.resolve_method(self.f.cls, e.func.attr)
    elif d is None and isinstance(e.func, ast.Name):
      callee = self.repo.func_by_dotted(
          self.repo.dotted(self.f.module, e.func) or '')
    if callee is not None and hasattr(callee, 'node') and \
            t != 'self.decision_function' and self.depth < 2 and \
            not e.keywords:
      params = callee.params()
      if callee.cls is not None and not callee.is_static:
        params = params[1:]
      if len(params) == len(args):
        sub = Acc(self.repo, callee, dict(
            (k, v) for k, v in self.env.items() if v == ('nsamples',)))
        sub.depth = self.depth + 1
        for p_, a_ in zip(params, args):
          sub.env[p_] = self.ev(a_)
        for s_ in callee.node.body:
          if isinstance(s_, ast.Expr) and isinstance(s_.value, ast.Constant):
            continue
          if isinstance(s_, ast.Assign) and len(s_.targets) == 1 and \
                  isinstance(s_.targets[0], ast.Name):
            sub.env[s_.targets[0].id] = sub.ev(s_.value)
          elif isinstance(s_, ast.Return) and s_.value is not None:
            return sub.ev(s_.value)
          else:
            break
      raise Unknown('helper %s is not straight-line' % t)
    if (d in (canon('numpy.cumsum'),
              canon('sklearn.utils.extmath.stable_cumsum')) or
            t.endswith('stable_cumsum')) and len(args) == 1:
      v = self.ev(args[0])
      if v[0] != 'ind':
        raise Unknown('cumulative sum of %r' % (v[0],))
      val, m, pos = v[1], v[2], v[3]
      # sum over entries 0..j of [Y[pos(j')] == val]
      p0 = pos.at(K(0))
      if pos.a == 1:
        if p0 != K(0):
          raise Unknown('cumulative sum not starting at position 0')
        return ('lin', m, {(val, pos): 1}, 0)
      if pos.a == -1:
        # positions pos(j) .. pos(0): P(pos(0)) - P(pos(j) - 1)
        t_ = {(val, pos - K(1)): -1}
        if p0 == N - K(1):
          t_[(val, N - K(1))] = 1
          return ('lin', m, t_, 0)
        raise Unknown('reversed cumulative sum not starting at the end')
      raise Unknown('cumulative sum over a non-monotone order')
    if d == canon('numpy.sum') and len(args) == 1:
      v = self.ev(args[0])
      if v[0] == 'ind' and v[2] == N:
        return ('total', v[1])
      raise Unknown('sum')
    if d == canon('numpy.concatenate') and len(args) == 1 and \
            isinstance(args[0], (ast.List, ast.Tuple)) and \
            len(args[0].elts) == 2:
      a, b = self.ev(args[0].elts[0]), self.ev(args[0].elts[1])
      return self.concat(a, b)
    if d in (canon('numpy.hstack'), canon('numpy.append')) and \
            len(args) == 2 and d == canon('numpy.append'):
      return self.concat(self.ev(args[0]), ('list1', self.ev(args[1])))
    if d == canon('numpy.argmax') and len(args) == 1 and not e.keywords:
      v = self.ev(args[0])
      if v[0] == 'lin':
        return ('argmax', v, None)
      if v[0] == 'masked':
        return ('argmaxm', v[1], v[2])
      raise Unknown('arg-max of %r' % (v[0],))
    if d == canon('numpy.flatnonzero') and len(args) == 1:
      v = self.ev(args[0])
      if v[0] == 'att':
        return ('where', v)
      raise Unknown('flatnonzero')
    raise Unknown('call %s' % ast.unparse(e.func))

  def concat(self, a, b):
    # one scalar in front of / behind a vector
    if a[0] == 'list1' and b[0] in ('lin', 'elem', 'att'):
      s, v = a[1], b
      m = self.length(v)
      nv = self.remap(v, J - K(1), m + K(1))
      if v[0] == 'lin':
        if not (s[0] == 'const' and s[1] == 0):
          raise Different('%r prepended to a cumulative count' % (s,))
        # entry 0 must be the empty count: sum of c * P_val(k(0)) with
        # P(-1) = 0 cancels term by term
        at0 = {}
        for (val, kk), c in nv[2].items():
          k0 = kk.at(K(0))
          if k0 == K(-1):
            continue
          at0[(val, k0)] = at0.get((val, k0), 0) + c
        if any(at0.values()) or v[3] != 0:
          raise Unknown('prepended zero does not continue the count')
        return nv
      if v[0] == 'elem' and v[1] == 'S':
        if not (s[0] == 'pickoff' and s[1] == v[3].at(K(0)) and s[2] > 0
                and v[3] == J):
          raise Different('reject-all candidate %r is not strictly above '
                          'the largest score' % (s,))
        return ('elem', 'S', m + K(1), J - K(1), 'above')
      if v[0] == 'att':
        if not (s[0] == 'const' and s[1] is True):
          raise Different('%r prepended to the attainability mask' % (s,))
        if nv[2].at(K(0)) != K(0):
          raise Different('mask entry added in front is not the reject-all '
                          'cut')
        return nv
    if b[0] == 'list1' and a[0] in ('lin', 'att'):
      s, v = b[1], a
      m = self.length(v)
      if v[0] == 'att':
        if not (s[0] == 'const' and s[1] is True):
          raise Different('%r appended to the attainability mask' % (s,))
        if v[2].at(m) != N:
          raise Different('mask entry appended is not the accept-all cut')
        return ('att', m + K(1), v[2])
      if v[0] == 'lin':
        raise Unknown('value appended to a count')
    raise Unknown('concatenation of %r and %r' % (a[0], b[0]))


def _branch(f, strategy):
  """the `if` whose test selects exactly `strategy` (top level or in an
  elif chain)"""
  for s in ast.walk(f.node):
    if isinstance(s, ast.If) and isinstance(s.test, ast.Compare) and \
            ast.unparse(s.test) in ("strategy == '%s'" % strategy,
                                    "'%s' == strategy" % strategy):
      return s
  return None


def rule_accuracy(repo, rep):
  R = 'R-FORM:accuracy-criterion-and-candidates'
  rep.rule(R, "strategy 'accuracy': with the scores in decreasing order and a "
           'reject-all candidate strictly above the largest one, entry j of '
           'the criterion is #{positives among the j accepted} + #{negatives '
           'among the rest} (up to a positive factor and a constant), the '
           'arg-max ranges over the attainable cuts only (no cut inside a '
           'group of equal scores), and threshold_ is minus the candidate '
           'score at the chosen entry')
  f = repo.get_func(FN)
  rep.analysed(f)
  br = _branch(f, 'accuracy')
  key = 'calibrate_threshold:accuracy'
  if br is None:
    rep.unknown(R, key, site(f), 'accuracy branch not found')
    return
  # names defined before the branch
  names = {}
  for s in f.node.body:
    if s is br:
      break
    if isinstance(s, ast.Assign) and isinstance(s.targets[0], ast.Name) and \
            ast.unparse(s.value) in ('pairs_valid.shape[0]', 'len(y_valid)',
                                     'len(pairs_valid)', 'y_valid.shape[0]'):
      names[s.targets[0].id] = ('nsamples',)
    if isinstance(s, ast.Assign) and isinstance(s.targets[0], ast.Tuple) and \
            isinstance(s.value, ast.Call) and \
            ast.unparse(s.value.func) == 'self._prepare_inputs':
      tn = [x.id for x in s.targets[0].elts if isinstance(x, ast.Name)]
      if len(tn) == 2:
        names[tn[1]] = ('labels',)
  if ('labels',) not in names.values():
    names['y_valid'] = ('labels',)
  ac = Acc(repo, f, names)
  stored = None
  try:
    for s in br.body:
      if isinstance(s, ast.Assign) and len(s.targets) == 1 and \
              isinstance(s.targets[0], ast.Name):
        ac.env[s.targets[0].id] = ac.ev(s.value)
      elif isinstance(s, ast.Assign) and \
              ast.unparse(s.targets[0]) == 'self.threshold_':
        stored = (s, None)
      elif isinstance(s, (ast.Return, ast.Expr)):
        continue
      else:
        raise Unknown('statement %s' % type(s).__name__)
  except Unknown as u:
    rep.unknown(R, key, site(f, br), 'branch outside the evaluated forms: %s'
                % u)
    return
  except Different as d_:
    rep.refuted(R, key, site(f, br), str(d_))
    return
  if stored is None:
    rep.refuted(R, key, site(f, br), 'the branch stores no threshold_')
    return
  st, val = stored
  # threshold_ = - candidates[index]
  cand = idx = None
  sv = st.value
  if isinstance(sv, ast.UnaryOp) and isinstance(sv.op, ast.USub) and \
          isinstance(sv.operand, ast.Subscript):
    try:
      cand = ac.ev(sv.operand.value)
      idx = ac.ev(sv.operand.slice)
    except Unknown as u:
      rep.unknown(R, key, site(f, st), 'stored value not derivable: %s' % u)
      return
  if cand is None:
    rep.refuted(R, key + ':threshold', site(f, st), 'threshold_ = %s is not '
                'minus a candidate score' % ast.unparse(sv))
    return
  # candidates: entry j = S[j-1], entry 0 strictly above the maximum
  ok_c = cand[:4] == ('elem', 'S', N + K(1), J - K(1)) and \
      cand[4:] == ('above',)
  rep.add(R, key + ':candidates', 'derived' if ok_c else 'refuted',
          site(f, st), '' if ok_c else 'candidate vector %r: entry j is not '
          'the lowest accepted score of cut j (with a reject-all entry '
          'first)' % (cand,))
  if idx[0] != 'argmax':
    rep.unknown(R, key + ':criterion', site(f, st), 'index %r is not an '
                'arg-max' % (idx[0],))
    return
  crit, mask = idx[1], idx[2]
  # criterion, constants dropped, prefix form: P_1(j-1) - P_-1(j-1)
  terms = {k: c for k, c in crit[2].items() if k[1].a != 0}
  want = {(1, J - K(1)): 1, (-1, J - K(1)): -1}
  pos = [c for c in terms.values() if c > 0]
  scale = pos[0] if pos else 1
  norm = {k: Fraction(c, scale) for k, c in terms.items()}
  ok_k = crit[1] == N + K(1) and norm == want
  rep.add(R, key + ':criterion', 'derived' if ok_k else 'refuted',
          site(f, st), '' if ok_k else 'criterion of cut j is %r over %r '
          'entries, documented: positives among the first j plus negatives '
          'among the others' % (terms, crit[1]))
  Rt = 'R-TIES:only-attainable-cutoffs'
  rep.rule(Rt, 'a threshold cannot separate equal scores: the arg-max of '
           'the accuracy ranges only over cuts between different scores '
           '(plus reject-all and accept-all)')
  if mask is None:
    rep.refuted(Rt, key, site(f, st), 'the arg-max ranges over every '
                'position of the sorted scores, including positions inside '
                'a group of tied scores whose cumulative accuracy no '
                'threshold attains')
  else:
    ok_m = mask == ('att', N + K(1), J)
    rep.add(Rt, key, 'derived' if ok_m else 'refuted', site(f, st),
            '' if ok_m else 'mask %r does not mark exactly the attainable '
            'cuts 0..n' % (mask,))


def rule_fbeta(repo, rep):
  R = 'R-FORM:f-beta-criterion'
  rep.rule(R, "strategy 'f_beta': (precision, recall, thresholds) = "
           'precision_recall_curve(y_valid, decision scores, pos_label=1); '
           'the criterion is (1 + beta^2) P R / (beta^2 P + R) as an exact '
           'rational function, NaN entries are set to 0 before the arg-max, '
           'threshold_ = -thresholds[arg-max]')
  f = repo.get_func(FN)
  br = _branch(f, 'f_beta')
  key = 'calibrate_threshold:f_beta'
  if br is None:
    rep.unknown(R, key, site(f), 'f_beta branch not found')
    return
  stm = [s for s in ast.walk(br) if isinstance(s, ast.Assign)]
  curve = [s for s in stm if isinstance(s.value, ast.Call) and
           canon(repo.dotted(f.module, s.value.func) or '') ==
           canon('sklearn.metrics.precision_recall_curve')]
  if len(curve) != 1 or not isinstance(curve[0].targets[0], ast.Tuple) or \
          len(curve[0].targets[0].elts) != 3:
    rep.unknown(R, key, site(f, br), 'precision_recall_curve call not found')
    return
  pn, rn, tn = [ast.unparse(x) for x in curve[0].targets[0].elts]
  _curve_args(repo, rep, R, f, curve[0].value, key)
  # sequential interpretation of the branch: scalar temporaries are rational
  # functions of beta, the criterion a rational function of (P, R, beta)
  P, Rr, b = Rat.sym('P'), Rat.sym('R'), Rat.sym('b')
  one = Rat.const(1)
  want = (one + b * b) * P * Rr / (b * b * P + Rr)
  scal = {pn: 'P', rn: 'R', 'beta': 'b'}
  env = {}            # name -> Rat (scalar temp) | ('crit', Rat, nanfree)
  state = {'amax': None, 'store': None}

  def dn(e):
    d = repo.dotted(f.module, e)
    return canon(d) if d else None

  def is_vec(r):
    return any(('P' in repr(x)) or ('R' in repr(x)) for x in [r])

  def ev(e):
    if isinstance(e, ast.Name) and e.id in env:
      return env[e.id]
    if isinstance(e, ast.Call):
      d = dn(e.func)
      if d == canon('numpy.where') and len(e.args) == 3:
        c, a, b_ = e.args
        x = ev(b_)
        if isinstance(c, ast.Call) and dn(c.func) == canon('numpy.isnan') and \
                ast.unparse(c.args[0]) == ast.unparse(b_) and \
                isinstance(a, ast.Constant) and a.value == 0 and \
                isinstance(x, tuple) and x[0] == 'crit':
          return ('crit', x[1], True)
        return None
      if d == canon('numpy.nan_to_num') and len(e.args) == 1:
        x = ev(e.args[0])
        if isinstance(x, tuple) and x[0] == 'crit':
          return ('crit', x[1], True)
        return None
      if d == canon('numpy.argmax') and len(e.args) == 1 and not e.keywords:
        x = ev(e.args[0])
        return ('amax', x, e) if isinstance(x, tuple) and x[0] == 'crit' \
            else ('amax-other', ast.unparse(e.args[0]), e)
      if isinstance(e.func, ast.Attribute) and e.func.attr == 'argmax' and \
              not e.args and not e.keywords:
        x = ev(e.func.value)
        return ('amax', x, e) if isinstance(x, tuple) and x[0] == 'crit' \
            else ('amax-other', ast.unparse(e.func.value), e)
    renv = {k: v for k, v in env.items() if isinstance(v, Rat)}
    renv.update({k: v[1] for k, v in env.items()
                 if isinstance(v, tuple) and v[0] == 'crit'})
    r = eval_expr(e, scal, {}, renv)
    if isinstance(r, Rat):
      names = set(x.id for x in ast.walk(e) if isinstance(x, ast.Name))
      vec = bool(names & {pn, rn}) or any(
          isinstance(env.get(n_), tuple) for n_ in names)
      return ('crit', r, False) if vec else r
    return None

  def run(body):
    for s_ in body:
      if isinstance(s_, ast.With):
        run(s_.body)
      elif isinstance(s_, ast.Assign) and len(s_.targets) == 1:
        t0 = s_.targets[0]
        if s_ is curve[0]:
          continue
        if isinstance(t0, ast.Name):
          v = ev(s_.value)
          if v is None:
            env.pop(t0.id, None)
          else:
            env[t0.id] = v
            if isinstance(v, tuple) and v[0] in ('amax', 'amax-other'):
              state['amax'] = (t0.id, v, s_)
        elif isinstance(t0, ast.Subscript) and isinstance(t0.value, ast.Name) \
                and isinstance(env.get(t0.value.id), tuple) and \
                env[t0.value.id][0] == 'crit':
          nm = t0.value.id
          msk = ast.unparse(t0.slice)
          if msk in ('np.isnan(%s)' % nm, '~np.isfinite(%s)' % nm) and \
                  isinstance(s_.value, ast.Constant) and s_.value.value == 0:
            env[nm] = ('crit', env[nm][1], True)
        elif ast.unparse(t0) == 'self.threshold_':
          state['store'] = s_
  run(br.body)
  crits = [v for v in env.values() if isinstance(v, tuple) and v[0] == 'crit']
  if state['amax'] is None:
    rep.unknown(R, key + ':argmax', site(f, br), 'arg-max statement not '
                'found')
    return
  iname, av, anode = state['amax']
  if av[0] == 'amax-other':
    rep.add(R, key + ':argmax', 'refuted' if av[1] in (pn, rn, tn) else
            'unknown', site(f, anode), 'the arg-max is taken of %s, not of '
            'the criterion' % av[1])
    return
  rep.derived(R, key + ':argmax', site(f, anode))
  crit = av[1]
  if crit[1] == want:
    rep.derived(R, key + ':formula', site(f, anode),
                sample=dict(rule=R, form=repr(crit[1])))
  else:
    rep.refuted(R, key + ':formula', site(f, anode), 'criterion is %r, '
                'documented F-beta %r' % (crit[1], want))
  rep.add(R, key + ':nan-to-zero', 'derived' if crit[2] else 'refuted',
          site(f, anode), '' if crit[2] else 'undefined (0/0) criterion '
          'entries are not set to 0 before the arg-max: NaN compares as the '
          'maximum')
  _threshold_store(rep, R, f, br, key, tn, iname)


def _curve_args(repo, rep, R, f, call, key):
  """(y_valid, self.decision_function(pairs_valid), pos_label=1)"""
  a = [ast.unparse(x) for x in call.args]
  kw = {k.arg: ast.unparse(k.value) for k in call.keywords}
  y = a[0] if a else kw.get('y_true')
  sc = a[1] if len(a) > 1 else kw.get('y_score', kw.get('probas_pred'))
  pl = a[2] if len(a) > 2 else kw.get('pos_label')
  ok = y == 'y_valid' and sc == 'self.decision_function(pairs_valid)' and \
      pl == '1'
  if ok:
    rep.derived(R, key + ':curve-arguments', site(f, call))
  elif sc is not None and sc.startswith('-') or pl == '-1' or \
          y != 'y_valid':
    rep.refuted(R, key + ':curve-arguments', site(f, call), 'curve computed '
                'from (%s, %s, pos_label=%s), documented: the validation '
                'labels, the decision scores, positive label 1' % (y, sc, pl))
  else:
    rep.unknown(R, key + ':curve-arguments', site(f, call), 'arguments '
                '(%s, %s, pos_label=%s) not recognised' % (y, sc, pl))
  return kw


def _threshold_store(rep, R, f, br, key, tn, iname, dead_guards=()):
  """every store of threshold_ in the branch is -<thresholds>[<index>]"""
  stores = [s for s in ast.walk(br) if isinstance(s, ast.Assign) and
            ast.unparse(s.targets[0]) == 'self.threshold_']
  if not stores:
    rep.refuted(R, key + ':threshold', site(f, br), 'no store of threshold_')
  for s in stores:
    conds = astutil.path_condition(br, s)
    if any(c in dead_guards for c in conds):
      # an index returned by np.where over the curve is < len(thresholds)
      rep.assume('the guard %s is infeasible: indices come from np.where '
                 'over arrays as long as thresholds' % list(dead_guards))
      continue
    t = ast.unparse(s.value)
    good = ('-%s[%s]' % (tn, iname), '-1 * %s[%s]' % (tn, iname),
            '-1.0 * %s[%s]' % (tn, iname))
    if t in good:
      rep.derived(R, key + ':threshold', site(f, s))
    elif t in ('%s[%s]' % (tn, iname),):
      rep.refuted(R, key + ':threshold', site(f, s), 'threshold_ = %s: the '
                  'scores are minus the distances, the threshold is on the '
                  'distance' % t)
    else:
      rep.unknown(R, key + ':threshold', site(f, s), 'threshold_ = %s is not '
                  'minus the candidate at the chosen index' % t)


class _Roc:
  """Interpretation of calibrate_threshold for one rate-constrained strategy
  (tests on `strategy` are decided, other tests fork).  Values:
    ('lin', {atom: coeff}, const)   vector linear in the curve rates fpr, tpr
    ('thr',)                        the thresholds of the curve
    ('minrate',)                    the parameter
    ('adm', key)                    admissible index set {lin OP 0}
    ('sub', lin, adm) ('amax_in', lin, adm) ('amax', lin, adm)
    ('thr_at', lin, adm) ('neg_thr_at', lin, adm)"""

  def __init__(self, repo, f, strategy):
    self.repo, self.f, self.strategy = repo, f, strategy
    self.stores = []        # (value, node, dead?)
    self.curve_call = None

  def dn(self, e):
    d = self.repo.dotted(self.f.module, e)
    return canon(d) if d else None

  @staticmethod
  def lin(terms, const=0):
    return ('lin', tuple(sorted((k, Fraction(v)) for k, v in terms.items()
                                if v)), Fraction(const))

  def ev(self, e, env):
    if isinstance(e, ast.Name):
      if e.id == 'min_rate':
        return ('minrate',)
      return env.get(e.id, ('?',))
    if isinstance(e, ast.Constant) and isinstance(e.value, (int, float)) and \
            not isinstance(e.value, bool):
      return ('num', Fraction(e.value).limit_denominator(10 ** 9))
    if isinstance(e, ast.UnaryOp) and isinstance(e.op, ast.USub):
      v = self.ev(e.operand, env)
      if v[0] == 'lin':
        return ('lin', tuple((k, -c) for k, c in v[1]), -v[2])
      if v[0] == 'sub':
        return ('sub', ('lin', tuple((k, -c) for k, c in v[1][1]), -v[1][2]),
                v[2])
      if v[0] == 'thr_at':
        return ('neg_thr_at',) + v[1:]
      if v[0] == 'num':
        return ('num', -v[1])
      return ('?',)
    if isinstance(e, ast.BinOp) and isinstance(e.op, (ast.Add, ast.Sub)):
      a, b = self.ev(e.left, env), self.ev(e.right, env)
      sg = 1 if isinstance(e.op, ast.Add) else -1

      def as_lin(v):
        if v[0] == 'lin':
          return dict(v[1]), v[2]
        if v[0] == 'num':
          return {}, v[1]
        if v[0] == 'minrate':
          return {'min_rate': Fraction(1)}, Fraction(0)
        return None
      # arithmetic on a restricted vector: restrict the result
      for x, y, swap in ((a, b, False), (b, a, True)):
        if x[0] == 'sub' and y[0] in ('num', 'lin') and \
                not any(k in ('fpr', 'tpr') for k, c in
                        (y[1] if y[0] == 'lin' else ())):
          lx, ly = as_lin(x[1]), as_lin(y)
          t = {}
          first, second = (ly, lx) if swap else (lx, ly)
          for k, c in first[0].items():
            t[k] = t.get(k, 0) + c
          for k, c in second[0].items():
            t[k] = t.get(k, 0) + sg * c
          return ('sub', self.lin(t, first[1] + sg * second[1]), x[2])
      la, lb = as_lin(a), as_lin(b)
      if la is None or lb is None:
        # thresholds[idx] - 1 and the like
        return ('?',)
      t = dict(la[0])
      for k, c in lb[0].items():
        t[k] = t.get(k, 0) + sg * c
      return self.lin(t, la[1] + sg * lb[1])
    if isinstance(e, ast.Compare) and len(e.ops) == 1:
      a, b = self.ev(e.left, env), self.ev(e.comparators[0], env)
      op = type(e.ops[0])
      diff = self.ev(ast.BinOp(left=e.left, op=ast.Sub(),
                               right=e.comparators[0]), env)
      if diff[0] == 'lin' and any(k in ('fpr', 'tpr') for k, c in diff[1]) \
              and op in (ast.Lt, ast.LtE, ast.Gt, ast.GtE):
        terms, const = dict(diff[1]), diff[2]
        opn = {ast.Lt: '<', ast.LtE: '<=', ast.Gt: '>', ast.GtE: '>='}[op]
        # canonical sign: coefficient of the rate positive
        lead = [c for k, c in sorted(terms.items()) if k in ('fpr', 'tpr')][0]
        if lead < 0:
          terms = {k: -c for k, c in terms.items()}
          const = -const
          opn = {'<': '>', '<=': '>=', '>': '<', '>=': '<='}[opn]
        return ('adm', (tuple(sorted(terms.items())), const, opn))
      return ('?',)
    if isinstance(e, ast.Dict) and all(
            isinstance(k, ast.Constant) and isinstance(k.value, str)
            for k in e.keys):
      # a dispatch table keyed by the strategy
      return ('dict', tuple((k.value, self.ev(v, env))
                            for k, v in zip(e.keys, e.values)))
    if isinstance(e, (ast.Tuple, ast.List)):
      return ('tuple', tuple(self.ev(x, env) for x in e.elts))
    if isinstance(e, ast.Subscript):
      b = self.ev(e.value, env)
      if b[0] == 'dict':
        k = self.strategy if isinstance(e.slice, ast.Name) and \
            e.slice.id == 'strategy' else (
                e.slice.value if isinstance(e.slice, ast.Constant) else None)
        return dict(b[1]).get(k, ('?',))
      if b[0] == 'tuple' and isinstance(e.slice, ast.Constant) and \
              isinstance(e.slice.value, int) and \
              -len(b[1]) <= e.slice.value < len(b[1]):
        return b[1][e.slice.value]
      if b[0] == 'wheretuple' and isinstance(e.slice, ast.Constant) and \
              e.slice.value == 0:
        return b[1]
      i = self.ev(e.slice, env)
      if b[0] == 'lin' and i[0] == 'adm':
        return ('sub', b, i)
      if b[0] == 'adm' and i[0] == 'amax_in' and i[2] == b:
        return ('amax', i[1], b)
      if b[0] == 'thr' and i[0] == 'amax':
        return ('thr_at', i[1], i[2])
      if b[0] in ('thr', 'lin') and i[0] == 'amax_in':
        raise Different('%s is indexed by the position inside the admissible '
                        'set, not mapped back through the index set'
                        % ast.unparse(e.value))
      return ('?',)
    if isinstance(e, ast.Call):
      d = self.dn(e.func)
      if d in (canon('numpy.where'), canon('numpy.nonzero')) and \
              len(e.args) == 1:
        v = self.ev(e.args[0], env)
        return ('wheretuple', v) if v[0] == 'adm' else ('?',)
      if d == canon('numpy.flatnonzero') and len(e.args) == 1:
        v = self.ev(e.args[0], env)
        return v if v[0] == 'adm' else ('?',)
      if d == canon('numpy.argmax') and len(e.args) == 1 and not e.keywords:
        v = self.ev(e.args[0], env)
        return ('amax_in', v[1], v[2]) if v[0] == 'sub' else ('?',)
      if isinstance(e.func, ast.Attribute) and e.func.attr == 'argmax' and \
              not e.args and not e.keywords:
        v = self.ev(e.func.value, env)
        return ('amax_in', v[1], v[2]) if v[0] == 'sub' else ('?',)
      if isinstance(e.func, ast.Name) and e.func.id == 'len' and e.args:
        v = self.ev(e.args[0], env)
        return ('len', v)
    return ('?',)

  def decide(self, test, env=None):
    """truth of a test that only looks at `strategy`; None otherwise"""
    names = set(x.id for x in ast.walk(test) if isinstance(x, ast.Name))
    if isinstance(test, ast.Compare) and len(test.ops) == 1 and \
            isinstance(test.ops[0], (ast.In, ast.NotIn)) and \
            isinstance(test.left, ast.Name) and test.left.id == 'strategy' \
            and env is not None:
      r = self.ev(test.comparators[0], env)
      if r[0] == 'dict':
        res = self.strategy in dict(r[1])
        return res if isinstance(test.ops[0], ast.In) else not res
    if names != {'strategy'}:
      return None
    try:
      return _abs_eval(test, {'strategy': self.strategy}, self.repo, self.f)
    except _Undecided:
      return None

  def run(self, body, env, dead=False):
    for k, s_ in enumerate(body):
      if isinstance(s_, ast.If):
        t = self.decide(s_.test, env)
        if t is True:
          if self.run(s_.body, env, dead) == 'return':
            return 'return'
        elif t is False:
          if self.run(s_.orelse, env, dead) == 'return':
            return 'return'
        else:
          # a test on something else: both branches, each followed by the
          # rest of the block.  `<index> == len(thresholds)` cannot hold for
          # an index drawn from the curve
          isdead = False
          tt = s_.test
          if isinstance(tt, ast.Compare) and len(tt.ops) == 1 and \
                  isinstance(tt.ops[0], ast.Eq):
            a, b = self.ev(tt.left, env), self.ev(tt.comparators[0], env)
            for x, y in ((a, b), (b, a)):
              if x[0] in ('amax', 'amax_in') and y == ('len', ('thr',)):
                isdead = True
          rest = body[k + 1:]
          for br, dd in ((s_.body, dead or isdead), (s_.orelse, dead)):
            e2 = dict(env)
            if self.run(list(br) + list(rest), e2, dd) != 'return':
              pass
          return 'return'
      elif isinstance(s_, ast.Assign) and len(s_.targets) == 1:
        t0 = s_.targets[0]
        if isinstance(t0, ast.Tuple) and isinstance(s_.value, ast.Call) and \
                self.dn(s_.value.func) == canon('sklearn.metrics.roc_curve') \
                and len(t0.elts) == 3:
          self.curve_call = s_.value
          for el, at in zip(t0.elts, ('fpr', 'tpr', None)):
            if isinstance(el, ast.Name):
              env[el.id] = self.lin({at: 1}) if at else ('thr',)
        elif isinstance(t0, ast.Tuple) and isinstance(s_.value, ast.Tuple) \
                and len(t0.elts) == len(s_.value.elts):
          vals = [self.ev(x, env) for x in s_.value.elts]
          for el, v in zip(t0.elts, vals):
            if isinstance(el, ast.Name):
              env[el.id] = v
        elif isinstance(t0, ast.Tuple):
          v = self.ev(s_.value, env)
          for k_, el in enumerate(t0.elts):
            if isinstance(el, ast.Name):
              env[el.id] = v[1][k_] if v[0] == 'tuple' and \
                  len(v[1]) == len(t0.elts) else ('?',)
        elif isinstance(t0, ast.Name):
          env[t0.id] = self.ev(s_.value, env)
        elif ast.unparse(t0) == 'self.threshold_':
          self.stores.append((self.ev(s_.value, env), s_, dead))
      elif isinstance(s_, ast.Return):
        return 'return'
      elif isinstance(s_, (ast.Expr, ast.With, ast.Pass)):
        continue
    return 'end'


def rule_roc(repo, rep):
  R = 'R-FORM:rate-constrained-criteria'
  rep.rule(R, "strategies 'max_tpr' / 'max_tnr', interpreted path by path: "
           '(fpr, tpr, thresholds) = roc_curve(y_valid, decision scores, '
           'pos_label=1, drop_intermediate=False); max_tpr stores minus the '
           'threshold at the arg-max of tpr over {1 - fpr >= min_rate}, '
           'max_tnr at the arg-max of 1 - fpr over {tpr >= min_rate} '
           '(objectives up to an additive constant), the position inside the '
           'admissible set being mapped back through the index set')
  Rd = 'R-API:no-candidate-dropped'
  rep.rule(Rd, 'roc_curve is asked to keep every threshold '
           '(drop_intermediate=False): by default it removes collinear '
           'points, one of which can be the best admissible cut-off')
  f = repo.get_func(FN)
  F = Fraction
  want = {
      'max_tpr': (((('fpr', F(1)), ('min_rate', F(1))), F(-1), '<='),
                  {'tpr': F(1)}),
      'max_tnr': (((('min_rate', F(-1)), ('tpr', F(1))), F(0), '>='),
                  {'fpr': F(-1)})}
  first = True
  for strat in ('max_tpr', 'max_tnr'):
    key = 'calibrate_threshold:' + strat
    rc = _Roc(repo, f, strat)
    try:
      rc.run([s_ for s_ in f.node.body], {})
    except Different as d_:
      rep.refuted(R, key, site(f), str(d_))
      continue
    if rc.curve_call is None:
      rep.unknown(R, key, site(f), 'roc_curve call not reached for this '
                  'strategy')
      continue
    if first:
      first = False
      kw = _curve_args(repo, rep, R, f, rc.curve_call,
                       'calibrate_threshold:roc')
      di = kw.get('drop_intermediate')
      rep.add(Rd, 'calibrate_threshold:roc', 'derived' if di == 'False' else
              'refuted', site(f, rc.curve_call), '' if di == 'False' else
              'roc_curve called with drop_intermediate=%s: collinear '
              'candidate thresholds are removed before the admissible set is '
              'formed' % (di or 'True (default)'))
    live = [(v, n) for (v, n, dead) in rc.stores if not dead]
    if any(dead for (v, n, dead) in rc.stores):
      rep.assume('a store of threshold_ guarded by <index> == len('
                 'thresholds) is infeasible: indices come from np.where over '
                 'arrays as long as thresholds')
    if not live:
      rep.refuted(R, key, site(f), 'no store of threshold_ for this '
                  'strategy')
      continue
    adm_w, obj_w = want[strat]
    for (v, node) in live:
      if v[0] == 'thr_at':
        rep.refuted(R, key + ':threshold', site(f, node), 'threshold_ = %s: '
                    'the scores are minus the distances, the threshold is on '
                    'the distance' % ast.unparse(node.value))
        continue
      if v[0] != 'neg_thr_at':
        rep.unknown(R, key + ':threshold', site(f, node), 'threshold_ = %s '
                    'is not minus the threshold at an arg-max over an '
                    'admissible set' % ast.unparse(node.value))
        continue
      rep.derived(R, key + ':threshold', site(f, node))
      lin, adm = v[1], v[2]
      if adm[1] == adm_w:
        rep.derived(R, key + ':admissible', site(f, node))
      else:
        rep.refuted(R, key + ':admissible', site(f, node), 'admissible set '
                    'is {%s %s 0}, documented {%s %s 0}' % (
                        _lin_str(adm[1][0], adm[1][1]), adm[1][2],
                        _lin_str(adm_w[0], adm_w[1]), adm_w[2]))
      got = {k: c for k, c in lin[1]}
      pos = [c for c in got.values()]
      same = False
      if set(got) == set(obj_w):
        k0 = next(iter(obj_w))
        ratio = got[k0] / obj_w[k0]
        same = ratio > 0 and all(got[k] == ratio * obj_w[k] for k in obj_w)
      if same:
        rep.derived(R, key + ':objective', site(f, node))
      else:
        rep.refuted(R, key + ':objective', site(f, node), 'the arg-max is '
                    'taken of %s, documented %s (up to a constant)' % (
                        _lin_str(lin[1], lin[2]),
                        _lin_str(tuple(obj_w.items()), 0)))


def rule_bound_unmodified(repo, rep):
  R = 'R-FORM:rate-bound-enters-unmodified'
  rep.rule(R, 'in calibrate_threshold every comparison that involves '
           'min_rate has min_rate itself on one side: arithmetic on the '
           'bound (fpr <= 1 - min_rate for 1 - fpr >= min_rate) is not exact '
           'in floating point (1 - 0.8 < 0.2), so a cut-off whose rate '
           'equals the bound would be lost')
  f = repo.get_func(FN)
  n = 0
  body = f.node.body
  for node in ast.walk(f.node):
    if not isinstance(node, ast.Compare) or len(node.ops) != 1:
      continue
    st = astutil.stmt_of(f.node, node)
    top = st
    pm = astutil.parents(f.node)
    while top not in body and top in pm:
      top = pm[top]
    sides = []
    for side in (node.left, node.comparators[0]):
      un = astutil.unfold(side, body, top, stop=('min_rate',)) \
          if top in body else side
      sides.append(un)
    inv = [u for u in sides if any(isinstance(x, ast.Name) and
                                   x.id == 'min_rate' for x in ast.walk(u))]
    if not inv:
      continue
    n += 1
    key = 'calibrate_threshold:%s' % ast.unparse(node)[:40]
    if len(inv) == 2:
      rep.unknown(R, key, site(f, node), 'min_rate on both sides')
    elif isinstance(inv[0], ast.Name) or (
            isinstance(inv[0], ast.Constant)):
      rep.derived(R, key, site(f, node))
    else:
      rep.refuted(R, key, site(f, node), 'the bound enters the comparison '
                  'as %s: floating-point arithmetic on min_rate moves the '
                  'boundary (1 - 0.8 = 0.19999999999999996), a cut-off whose '
                  'rate equals min_rate is no longer admissible'
                  % ast.unparse(inv[0]))
  rep.floor('comparisons with min_rate', n, 1)


def _lin_str(terms, const):
  bits = ['%s*%s' % (c, k) for k, c in terms]
  if const:
    bits.append(str(const))
  return ' + '.join(bits) or '0'


def _lin_equal_mod_const(a, b):
  return a is not None and b is not None and a.terms == b.terms


def rule_fit_calibrates(repo, rep):
  R = 'R-FLOW:fit-calibrates-on-the-training-pairs'
  rep.rule(R, 'ITML / MMC / SDML .fit end with calibrate_threshold(pairs, y, '
           '**calibration_params), calibration_params defaulting to {} when '
           'None')
  n = 0
  for cn in ('ITML', 'MMC', 'SDML'):
    c = repo.get_class(cn)
    f = repo.resolve_method(c, 'fit')
    rep.analysed(f)
    calls = [x for x in astutil.calls_in(f.node)
             if ast.unparse(x.func) == 'self.calibrate_threshold']
    key = cn + '.fit'
    if len(calls) != 1:
      rep.refuted(R, key, site(f), 'fit does not call calibrate_threshold '
                  'exactly once')
      continue
    n += 1
    cl = calls[0]
    params = f.params()
    a = [ast.unparse(x) for x in cl.args]
    star = [ast.unparse(k.value) for k in cl.keywords if k.arg is None]
    ok = a == [params[1], params[2]] and star == ['calibration_params'] and \
        len(cl.keywords) == 1
    rep.add(R, key, 'derived' if ok else 'refuted', site(f, cl), '' if ok
            else 'calibrate_threshold(%s) is not (pairs, y, '
            '**calibration_params)' % ast.unparse(cl)[len('self.calibrate_threshold('):-1])
  rep.floor('pair learners whose fit calibrates', n, 3)


class _Undecided(Exception):
  pass


def _abs_eval(e, env, repo, f):
  """Truth value of a guard under an abstract environment: strategy is a
  concrete string, min_rate an element of the partition {nan, neg, zero, mid,
  one, big} of the floats (each class behaves uniformly in comparisons with
  the constants 0 and 1, which are the only ones allowed), beta a float."""
  REP = {'nan': float('nan'), 'neg': -0.5, 'zero': 0.0, 'mid': 0.5,
         'one': 1.0, 'big': 1.5}

  def val(x):
    if isinstance(x, ast.Constant):
      if isinstance(x.value, (int, float)) and not isinstance(x.value, bool) \
              and x.value not in (0, 1):
        raise _Undecided('constant %r' % x.value)
      return x.value
    if isinstance(x, ast.UnaryOp) and isinstance(x.op, ast.USub):
      raise _Undecided('negative constant')
    if isinstance(x, ast.Name):
      if x.id not in env:
        raise _Undecided('name %s' % x.id)
      v = env[x.id]
      return REP[v] if x.id == 'min_rate' else v
    if isinstance(x, (ast.Tuple, ast.List)):
      return tuple(val(y) for y in x.elts)
    raise _Undecided(type(x).__name__)
  if isinstance(e, ast.BoolOp):
    vals = [_abs_eval(x, env, repo, f) for x in e.values]
    return all(vals) if isinstance(e.op, ast.And) else any(vals)
  if isinstance(e, ast.UnaryOp) and isinstance(e.op, ast.Not):
    return not _abs_eval(e.operand, env, repo, f)
  if isinstance(e, ast.Compare):
    left = val(e.left)
    res = True
    for op, r_ in zip(e.ops, e.comparators):
      right = val(r_)
      if isinstance(op, ast.Is):
        ok = left is right
      elif isinstance(op, ast.IsNot):
        ok = left is not right
      elif isinstance(op, ast.In):
        ok = left in right
      elif isinstance(op, ast.NotIn):
        ok = left not in right
      elif isinstance(op, ast.Eq):
        ok = left == right
      elif isinstance(op, ast.NotEq):
        ok = left != right
      else:
        if isinstance(left, str) or isinstance(right, str) or \
                left is None or right is None:
          raise _Undecided('ordering of non-numbers')
        ok = {ast.Lt: left < right, ast.LtE: left <= right,
              ast.Gt: left > right, ast.GtE: left >= right}[type(op)]
      res = res and ok
      left = right
    return res
  if isinstance(e, ast.Call):
    d = canon(repo.dotted(f.module, e.func) or '') if \
        repo.dotted(f.module, e.func) else None
    if isinstance(e.func, ast.Name) and e.func.id == 'isinstance' and \
            len(e.args) == 2 and isinstance(e.args[0], ast.Name):
      tn = ast.unparse(e.args[1])
      v = env.get(e.args[0].id)
      if e.args[0].id in ('min_rate', 'beta'):
        if tn in ('(int, float)', '(float, int)', 'float',
                  'numbers.Real', '(int, float, np.floating)'):
          if e.args[0].id == 'beta':
            return isinstance(env.get('beta'), float)
          return True       # the classes of min_rate model float values
        raise _Undecided('isinstance %s' % tn)
      raise _Undecided('isinstance')
    if d in (canon('numpy.isnan'), 'math.isnan') and len(e.args) == 1 and \
            ast.unparse(e.args[0]) == 'min_rate':
      return env['min_rate'] == 'nan'
    raise _Undecided('call %s' % ast.unparse(e.func))
  if isinstance(e, ast.Name) or isinstance(e, ast.Constant):
    return bool(val(e))
  raise _Undecided(type(e).__name__)


def _abs_run(body, env, repo, f):
  """'ValueError' | 'other:<exc>' | 'ok' for a body made of if / raise /
  expression statements"""
  for s_ in body:
    if isinstance(s_, ast.If):
      br = s_.body if _abs_eval(s_.test, env, repo, f) else s_.orelse
      r = _abs_run(br, env, repo, f)
      if r != 'ok':
        return r
    elif isinstance(s_, ast.Raise):
      names = repo.exception_bases(f.module, s_.exc) if s_.exc else ['?']
      return 'ValueError' if 'ValueError' in names else 'other:%s' % names[0]
    elif isinstance(s_, ast.Return):
      return 'ok'
    elif isinstance(s_, (ast.Expr, ast.Pass)):
      continue
    else:
      raise _Undecided('statement %s' % type(s_).__name__)
  return 'ok'


def rule_min_rate_range(repo, rep):
  R = 'R-GUARD:min-rate-range-rejects-nan'
  rep.rule(R, '_validate_calibration_params, interpreted over the partition '
           '{NaN, <0, 0, (0,1), 1, >1} of the values of min_rate (exact for '
           'comparisons with 0 and 1), raises ValueError for the rate-'
           'constrained strategies exactly on {NaN, <0, >1}: a test written '
           '`min_rate < 0 or min_rate > 1` lets NaN through, `not min_rate '
           '>= 0 or not min_rate <= 1` does not')
  f = repo.get_func('base_metric._PairsClassifierMixin.'
                    '_validate_calibration_params')
  rep.analysed(f)
  body = [s_ for s_ in f.node.body
          if not (isinstance(s_, ast.Expr) and
                  isinstance(s_.value, ast.Constant))]
  want = {'nan': 'ValueError', 'neg': 'ValueError', 'big': 'ValueError',
          'zero': 'ok', 'mid': 'ok', 'one': 'ok'}
  for strat in ('max_tpr', 'max_tnr'):
    for cls_, w in want.items():
      key = '_validate_calibration_params:%s:min_rate=%s' % (strat, cls_)
      try:
        got = _abs_run(body, {'strategy': strat, 'min_rate': cls_,
                              'beta': 1.0}, repo, f)
      except _Undecided as u:
        rep.unknown(R, key, site(f), 'guard outside the interpreted forms: '
                    '%s' % u)
        continue
      if got == w:
        rep.derived(R, key, site(f))
      else:
        rep.refuted(R, key, site(f), 'for strategy %r and min_rate in the '
                    'class %s the validation gives %s, documented %s'
                    % (strat, cls_, got, w))
  # beta: a real number is required for f_beta (and only there); the strategy
  # itself must be one of the four documented names
  for bval_, w in ((None, 'ValueError'), ('not-a-number', 'ValueError'),
                   (1.0, 'ok'), (0.0, 'ok')):
    key = '_validate_calibration_params:f_beta:beta=%r' % (bval_,)
    try:
      got = _abs_run(body, {'strategy': 'f_beta', 'min_rate': 'mid',
                            'beta': bval_}, repo, f)
    except _Undecided as u:
      rep.unknown(R, key, site(f), 'guard outside the interpreted forms: %s'
                  % u)
      continue
    rep.add(R, key, 'derived' if got == w else 'refuted', site(f),
            '' if got == w else 'for strategy f_beta and beta = %r the '
            'validation gives %s, documented %s' % (bval_, got, w))
  for strat, w in (('accuracy', 'ok'), ('f_beta', 'ok'), ('max_tpr', 'ok'),
                   ('max_tnr', 'ok'), ('weird', 'ValueError')):
    key = '_validate_calibration_params:strategy=%s' % strat
    try:
      got = _abs_run(body, {'strategy': strat, 'min_rate': 'mid',
                            'beta': 1.0}, repo, f)
    except _Undecided as u:
      rep.unknown(R, key, site(f), 'guard outside the interpreted forms: %s'
                  % u)
      continue
    rep.add(R, key, 'derived' if got == w else 'refuted', site(f),
            '' if got == w else 'strategy %r gives %s, documented %s'
            % (strat, got, w))


def rule_validation_args(repo, rep):
  R = 'R-FLOW:calibration-parameters-reach-their-formals'
  rep.rule(R, 'calibrate_threshold hands (strategy, min_rate, beta) to the '
           'same-named formals of _validate_calibration_params; fit hands '
           'over **calibration_params')
  f = repo.get_func(FN)
  g = repo.get_func('base_metric._PairsClassifierMixin.'
                    '_validate_calibration_params')
  formals = g.params()
  if formals and formals[0] in ('self', 'cls'):
    formals = formals[1:]
  calls = [c for c in astutil.calls_in(f.node)
           if ast.unparse(c.func) == 'self._validate_calibration_params']
  if len(calls) != 1:
    rep.unknown(R, 'calibrate_threshold', site(f), '%d validation calls'
                % len(calls))
    return
  c = calls[0]
  bound = {}
  for i_, a in enumerate(c.args):
    if i_ < len(formals):
      bound[formals[i_]] = ast.unparse(a)
  for k in c.keywords:
    if k.arg:
      bound[k.arg] = ast.unparse(k.value)
  bad = {k: v for k, v in bound.items() if k != v}
  missing = [p_ for p_ in ('strategy', 'min_rate', 'beta') if p_ not in bound]
  ok = not bad and not missing
  rep.add(R, 'calibrate_threshold', 'derived' if ok else 'refuted',
          site(f, c), '' if ok else 'validation receives %s%s' % (
              bad, ' and nothing for %s' % missing if missing else ''))


def rule_same_precision(repo, rep):
  R = 'R-SIB:calibration-scores-like-predict'
  rep.rule(R, 'calibrate_threshold validates the validation pairs with the '
           'same dtype option as decision_function / predict / pair_distance '
           'validate theirs: a cut-off computed from distances in another '
           'precision (float64 scores of float32 pairs) is not a cut-off of '
           'the distances predict compares with threshold_')
  c = repo.get_class('_PairsClassifierMixin')
  if c is None:
    rep.unknown(R, '_PairsClassifierMixin', '', 'class vanished')
    return
  opts = {}
  for nm in ('calibrate_threshold', 'decision_function', 'predict',
             'pair_distance', 'score'):
    f = repo.resolve_method(c, nm)
    if f is None:
      continue
    for call in astutil.calls_in(f.node):
      t = ast.unparse(call.func)
      if t.endswith('check_input') or t.endswith('_prepare_inputs'):
        kw = dict((k.arg, ast.unparse(k.value)) for k in call.keywords
                  if k.arg)
        opts[nm] = (kw.get('dtype'), call, f)
  if 'calibrate_threshold' not in opts or len(opts) < 2:
    rep.unknown(R, 'calibrate_threshold', '', 'validator calls not found '
                '(%s)' % sorted(opts))
    return
  ref = opts['calibrate_threshold']
  others = dict((k, v) for k, v in opts.items() if k != 'calibrate_threshold')
  diff = [k for k, v in others.items() if v[0] != ref[0]]
  key = 'calibrate_threshold:dtype-option'
  if not diff:
    rep.derived(R, key, site(ref[2], ref[1]))
  else:
    rep.refuted(R, key, site(ref[2], ref[1]), 'calibrate_threshold validates '
                'with dtype=%s, %s with dtype=%s: the scores the cut-off is '
                'chosen from are not the ones predict compares with it'
                % (ref[0], diff[0], others[diff[0]][0]))


def check(repo, rep, tier):
  before = len(rep.obs)
  rule_same_precision(repo, rep)
  rule_validation_args(repo, rep)
  c06.rule_calibration_first(repo, rep)
  rule_min_rate_range(repo, rep)
  rule_accuracy(repo, rep)
  rule_fbeta(repo, rep)
  rule_roc(repo, rep)
  rule_bound_unmodified(repo, rep)
  rule_fit_calibrates(repo, rep)
  rep.assume('library semantics: precision_recall_curve / roc_curve return '
             'the rates at every distinct score in decreasing order of '
             'threshold (roc_curve with drop_intermediate=False), the first '
             'ROC point rejecting every pair')
  rep.assume('decision_function is minus the learned distance and predict '
             'accepts a pair when its distance is <= threshold_ (C04)')
