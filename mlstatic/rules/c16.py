"""C16 - threshold calibration picks an optimal cut-off.

Optimality itself quantifies over the validation multiset.  What is decided
here are the structural necessary conditions of it that live in the shape of
calibrate_threshold (base_metric._PairsClassifierMixin):

  * the criterion each strategy maximises is the documented one, as a
    function of the cut position (accuracy: positional-count algebra below)
    or as an exact rational function (F-beta) / a normalised admissibility
    comparison and objective (max_tpr / max_tnr);
  * the candidate cut-offs are all and only the attainable ones: positions
    inside a group of tied scores are excluded (accuracy), no candidate of
    the ROC curve is dropped (drop_intermediate=False);
  * the stored threshold is minus the candidate score at the chosen index,
    candidates and criterion are aligned position by position;
  * parameters are validated before any work, fit hands its
    calibration_params to calibrate_threshold on the training pairs.

Positional-count algebra (accuracy branch).  With the scores sorted in
decreasing order (S, labels Y in the same order, n of them), a cut c in
0..n accepts positions < c.  Every vector of the branch is described entry
by entry, j being the entry index:
  ('elem', src, m, pos)        entry j = src[pos(j)]     (src in 'S', 'Y')
  ('ind', val, m, pos)         entry j = [Y[pos(j)] == val]
  ('lin', m, {(val, k): c}, c0) entry j = sum c * P_val(k(j)) + c0, where
                               P_val(k) = #{i <= k : Y[i] == val}
  ('att', m, cut)              entry j = [cut(j) is attainable]
with m, pos, k, cut affine in (j, n).  P_val(-1) = 0 and P_val(n-1) is the
constant N_val, so prefix and suffix formulations normalise to the same
form.
"""
import ast
from fractions import Fraction
from ..model import canon
from ..ratfunc import Rat, eval_expr
from .. import astutil, guards
from .common import site
from . import c06

FN = 'base_metric._PairsClassifierMixin.calibrate_threshold'


# ------------------------------------------------------------ affine forms
class Aff:
  """a*j + b*n + c"""
  __slots__ = ('a', 'b', 'c')

  def __init__(self, a=0, b=0, c=0):
    self.a, self.b, self.c = a, b, c

  def key(self):
    return (self.a, self.b, self.c)

  def __eq__(self, o):
    return isinstance(o, Aff) and self.key() == o.key()

  def __hash__(self):
    return hash(self.key())

  def __add__(self, o):
    o = o if isinstance(o, Aff) else Aff(0, 0, o)
    return Aff(self.a + o.a, self.b + o.b, self.c + o.c)

  def __neg__(self):
    return Aff(-self.a, -self.b, -self.c)

  def __sub__(self, o):
    return self + (-(o if isinstance(o, Aff) else Aff(0, 0, o)))

  def subst_j(self, e):
    """replace j by the affine form e"""
    return Aff(self.a * e.a, self.b + self.a * e.b, self.c + self.a * e.c)

  def at(self, jval):
    """value at entry j = jval (an Aff without j)"""
    return self.subst_j(jval)

  def __repr__(self):
    bits = []
    for co, nm in ((self.a, 'j'), (self.b, 'n')):
      if co:
        bits.append(('%s' % nm) if co == 1 else ('-%s' % nm) if co == -1
                    else '%d%s' % (co, nm))
    if self.c or not bits:
      bits.append(str(self.c))
    return '+'.join(bits).replace('+-', '-')


J, N = Aff(1, 0, 0), Aff(0, 1, 0)


def K(c):
  return Aff(0, 0, c)


class Unknown(Exception):
  pass


class Different(Exception):
  """A construct that is understood and is not the documented one."""


# ------------------------------------------------------------ the evaluator
class Acc:
  """Symbolic evaluation of the straight-line accuracy branch."""

  def __init__(self, repo, f, names):
    self.repo, self.f = repo, f
    self.env = dict(names)

  def dn(self, e):
    d = self.repo.dotted(self.f.module, e)
    return canon(d) if d else None

  # -- helpers on vectors
  @staticmethod
  def length(v):
    return v[2] if v[0] in ('elem', 'ind') else v[1]

  @staticmethod
  def remap(v, e, m):
    """vector whose entry j is entry e(j) of v, with length m"""
    k = v[0]
    if k == 'elem':
      return ('elem', v[1], m, v[3].subst_j(e)) + tuple(v[4:])
    if k == 'ind':
      return ('ind', v[1], m, v[3].subst_j(e))
    if k == 'lin':
      return ('lin', m, {(val, kk.subst_j(e)): c
                         for (val, kk), c in v[2].items()}, v[3])
    if k == 'att':
      return ('att', m, v[2].subst_j(e))
    raise Unknown('cannot re-index %r' % (k,))

  def scalar_sign(self, e):
    """'pos' for an expression known to be a positive scalar"""
    if isinstance(e, ast.Constant) and isinstance(e.value, (int, float)) and \
            not isinstance(e.value, bool):
      return 'pos' if e.value > 0 else None
    v = self.env.get(ast.unparse(e))
    if v == ('nsamples',):
      return 'pos'
    t = ast.unparse(e)
    if t in ('len(y_valid)', 'len(scores)', 'y_valid.shape[0]',
             'pairs_valid.shape[0]', 'scores.shape[0]', 'len(pairs_valid)',
             'float(n_samples)'):
      return 'pos'
    return None

  def ev(self, e):
    if isinstance(e, ast.Name):
      if e.id in self.env:
        return self.env[e.id]
      raise Unknown('name %s has no evaluated definition' % e.id)
    if isinstance(e, ast.Constant):
      return ('const', e.value)
    if isinstance(e, ast.UnaryOp) and isinstance(e.op, ast.USub):
      v = self.ev(e.operand)
      if v == ('scores',):
        return ('negscores',)
      if v[0] == 'const' and isinstance(v[1], (int, float)):
        return ('const', -v[1])
      if v[0] == 'pick':
        return ('negpick',) + v[1:]
      raise Unknown('negation of %r' % (v[0],))
    if isinstance(e, ast.Attribute) and e.attr == 'shape':
      raise Unknown('shape')
    if isinstance(e, ast.Subscript):
      return self.ev_subscript(e)
    if isinstance(e, ast.Compare) and len(e.ops) == 1:
      a, b = self.ev(e.left), self.ev(e.comparators[0])
      op = e.ops[0]
      if a[0] == 'elem' and a[1] == 'Y' and b[0] == 'const' and \
              isinstance(op, ast.Eq):
        return ('ind', b[1], a[2], a[3])
      if a[0] == 'elem' and b[0] == 'elem' and a[1] == b[1] == 'S' and \
              isinstance(op, ast.NotEq) and a[2] == b[2]:
        lo, hi = (a, b) if (b[3] - a[3]) == K(1) else (b, a)
        if (hi[3] - lo[3]) != K(1):
          raise Different('scores compared at positions %r and %r: not '
                          'neighbours in the sorted order' % (a[3], b[3]))
        # S[p] != S[p+1]: the cut accepting positions < p+1 is attainable;
        # p = -1 is the reject-all candidate placed above the maximum
        if lo[3].at(K(0)) == K(-1) and lo[4:] != ('above',):
          raise Unknown('position -1 read without a reject-all entry')
        return ('att', a[2], hi[3])
      raise Unknown('comparison %s' % ast.unparse(e))
    if isinstance(e, ast.BinOp):
      return self.ev_binop(e)
    if isinstance(e, ast.List) and len(e.elts) == 1:
      return ('list1', self.ev(e.elts[0]))
    if isinstance(e, ast.Call):
      return self.ev_call(e)
    raise Unknown(type(e).__name__)

  def ev_binop(self, e):
    if isinstance(e.op, (ast.Div, ast.Mult)):
      # positive scaling of a criterion does not move its arg-max
      cands = [(e.left, e.right)]
      if isinstance(e.op, ast.Mult):
        cands.append((e.right, e.left))
      for vec_e, sc_e in cands:
        if self.scalar_sign(sc_e) == 'pos':
          v = self.ev(vec_e)
          if v[0] == 'lin':
            return v
      raise Unknown('scaling %s' % ast.unparse(e))
    a, b = self.ev(e.left), self.ev(e.right)
    if isinstance(e.op, (ast.Add, ast.Sub)):
      sg = 1 if isinstance(e.op, ast.Add) else -1
      if a[0] == 'lin' and b[0] == 'lin' and a[1] == b[1]:
        t = dict(a[2])
        for k, c in b[2].items():
          t[k] = t.get(k, 0) + sg * c
        return ('lin', a[1], {k: c for k, c in t.items() if c}, a[3] + sg * b[3])
      if a[0] == 'lin' and b[0] == 'const':
        return ('lin', a[1], dict(a[2]), a[3] + sg * b[1])
      if a[0] == 'total' and b[0] == 'lin':
        # N_val - P_val(k): suffix count
        t = {k: sg * c for k, c in b[2].items()}
        t[(a[1], N - K(1))] = t.get((a[1], N - K(1)), 0) + 1
        return ('lin', b[1], {k: c for k, c in t.items() if c}, sg * b[3])
      if a[0] == 'pick' and b[0] == 'const' and a[1] == 'S' and \
              isinstance(b[1], (int, float)):
        off = sg * b[1]
        return ('pickoff', a[2], off)
      raise Unknown('sum of %r and %r' % (a[0], b[0]))
    raise Unknown('operator %s' % type(e.op).__name__)

  def ev_subscript(self, e):
    base = self.ev(e.value)
    sl = e.slice
    if isinstance(sl, ast.Slice):
      lo = sl.lower.value if isinstance(sl.lower, ast.Constant) else \
          None if sl.lower is None else 'x'
      hi = None if sl.upper is None else (
          -sl.upper.operand.value if isinstance(sl.upper, ast.UnaryOp) and
          isinstance(sl.upper.op, ast.USub) and
          isinstance(sl.upper.operand, ast.Constant) else
          sl.upper.value if isinstance(sl.upper, ast.Constant) else 'x')
      st = None if sl.step is None else (
          -sl.step.operand.value if isinstance(sl.step, ast.UnaryOp) and
          isinstance(sl.step.op, ast.USub) and
          isinstance(sl.step.operand, ast.Constant) else
          sl.step.value if isinstance(sl.step, ast.Constant) else 'x')
      if (lo, hi, st) == (None, None, -1):
        if base[0] == 'perm':
          return ('perm', not base[1])
        m = self.length(base)
        return self.remap(base, m - K(1) - J, m)
      if (lo, hi, st) == (None, -1, None):
        m = self.length(base)
        return self.remap(base, J, m - K(1))
      if (lo, hi, st) == (1, None, None):
        m = self.length(base)
        return self.remap(base, J + K(1), m - K(1))
      raise Unknown('slice %s' % ast.unparse(sl))
    idx = self.ev(sl)
    if base == ('scores',) and idx[0] == 'perm':
      return ('elem', 'S', N, J if idx[1] else N - K(1) - J)
    if base == ('labels',) and idx[0] == 'perm':
      return ('elem', 'Y', N, J if idx[1] else N - K(1) - J)
    if base[0] == 'elem' and idx[0] == 'const' and isinstance(idx[1], int):
      j0 = K(idx[1]) if idx[1] >= 0 else base[2] + K(idx[1])
      return ('pick', base[1], base[3].at(j0))
    if base[0] == 'lin' and idx[0] == 'att' and base[1] == idx[1]:
      return ('masked', base, idx)
    if base[0] == 'where' and idx[0] == 'argmaxm' and base[1] == idx[2]:
      # positions of the mask, entry number arg-max of the masked vector
      return ('argmax', idx[1], idx[2])
    if base[0] == 'elem' and idx[0] == 'argmax':
      return ('pick_at', base, idx)
    raise Unknown('subscript %s' % ast.unparse(e))

  def ev_call(self, e):
    d = self.dn(e.func)
    t = ast.unparse(e.func)
    args = e.args
    if t == 'self.decision_function' and len(args) == 1:
      return ('scores',)
    if d == canon('numpy.argsort') and len(args) == 1 and not e.keywords:
      v = self.ev(args[0])
      if v == ('scores',):
        return ('perm', False)
      if v == ('negscores',):
        return ('perm', True)
      raise Unknown('argsort of %r' % (v,))
    if (d in (canon('numpy.cumsum'),
              canon('sklearn.utils.extmath.stable_cumsum')) or
            t.endswith('stable_cumsum')) and len(args) == 1:
      v = self.ev(args[0])
      if v[0] != 'ind':
        raise Unknown('cumulative sum of %r' % (v[0],))
      val, m, pos = v[1], v[2], v[3]
      # sum over entries 0..j of [Y[pos(j')] == val]
      p0 = pos.at(K(0))
      if pos.a == 1:
        if p0 != K(0):
          raise Unknown('cumulative sum not starting at position 0')
        return ('lin', m, {(val, pos): 1}, 0)
      if pos.a == -1:
        # positions pos(j) .. pos(0): P(pos(0)) - P(pos(j) - 1)
        t_ = {(val, pos - K(1)): -1}
        if p0 == N - K(1):
          t_[(val, N - K(1))] = 1
          return ('lin', m, t_, 0)
        raise Unknown('reversed cumulative sum not starting at the end')
      raise Unknown('cumulative sum over a non-monotone order')
    if d == canon('numpy.sum') and len(args) == 1:
      v = self.ev(args[0])
      if v[0] == 'ind' and v[2] == N:
        return ('total', v[1])
      raise Unknown('sum')
    if d == canon('numpy.concatenate') and len(args) == 1 and \
            isinstance(args[0], (ast.List, ast.Tuple)) and \
            len(args[0].elts) == 2:
      a, b = self.ev(args[0].elts[0]), self.ev(args[0].elts[1])
      return self.concat(a, b)
    if d in (canon('numpy.hstack'), canon('numpy.append')) and \
            len(args) == 2 and d == canon('numpy.append'):
      return self.concat(self.ev(args[0]), ('list1', self.ev(args[1])))
    if d == canon('numpy.argmax') and len(args) == 1 and not e.keywords:
      v = self.ev(args[0])
      if v[0] == 'lin':
        return ('argmax', v, None)
      if v[0] == 'masked':
        return ('argmaxm', v[1], v[2])
      raise Unknown('arg-max of %r' % (v[0],))
    if d == canon('numpy.flatnonzero') and len(args) == 1:
      v = self.ev(args[0])
      if v[0] == 'att':
        return ('where', v)
      raise Unknown('flatnonzero')
    raise Unknown('call %s' % ast.unparse(e.func))

  def concat(self, a, b):
    # one scalar in front of / behind a vector
    if a[0] == 'list1' and b[0] in ('lin', 'elem', 'att'):
      s, v = a[1], b
      m = self.length(v)
      nv = self.remap(v, J - K(1), m + K(1))
      if v[0] == 'lin':
        if not (s[0] == 'const' and s[1] == 0):
          raise Different('%r prepended to a cumulative count' % (s,))
        # entry 0 must be the empty count: sum of c * P_val(k(0)) with
        # P(-1) = 0 cancels term by term
        at0 = {}
        for (val, kk), c in nv[2].items():
          k0 = kk.at(K(0))
          if k0 == K(-1):
            continue
          at0[(val, k0)] = at0.get((val, k0), 0) + c
        if any(at0.values()) or v[3] != 0:
          raise Unknown('prepended zero does not continue the count')
        return nv
      if v[0] == 'elem' and v[1] == 'S':
        if not (s[0] == 'pickoff' and s[1] == v[3].at(K(0)) and s[2] > 0
                and v[3] == J):
          raise Different('reject-all candidate %r is not strictly above '
                          'the largest score' % (s,))
        return ('elem', 'S', m + K(1), J - K(1), 'above')
      if v[0] == 'att':
        if not (s[0] == 'const' and s[1] is True):
          raise Different('%r prepended to the attainability mask' % (s,))
        if nv[2].at(K(0)) != K(0):
          raise Different('mask entry added in front is not the reject-all '
                          'cut')
        return nv
    if b[0] == 'list1' and a[0] in ('lin', 'att'):
      s, v = b[1], a
      m = self.length(v)
      if v[0] == 'att':
        if not (s[0] == 'const' and s[1] is True):
          raise Different('%r appended to the attainability mask' % (s,))
        if v[2].at(m) != N:
          raise Different('mask entry appended is not the accept-all cut')
        return ('att', m + K(1), v[2])
      if v[0] == 'lin':
        raise Unknown('value appended to a count')
    raise Unknown('concatenation of %r and %r' % (a[0], b[0]))


def _branch(f, strategy):
  """statements of `if strategy == '<strategy>':` at the top level"""
  for s in f.node.body:
    if isinstance(s, ast.If) and isinstance(s.test, ast.Compare) and \
            ast.unparse(s.test) == "strategy == '%s'" % strategy:
      return s
  return None


def rule_accuracy(repo, rep):
  R = 'R-FORM:accuracy-criterion-and-candidates'
  rep.rule(R, "strategy 'accuracy': with the scores in decreasing order and a "
           'reject-all candidate strictly above the largest one, entry j of '
           'the criterion is #{positives among the j accepted} + #{negatives '
           'among the rest} (up to a positive factor and a constant), the '
           'arg-max ranges over the attainable cuts only (no cut inside a '
           'group of equal scores), and threshold_ is minus the candidate '
           'score at the chosen entry')
  f = repo.get_func(FN)
  rep.analysed(f)
  br = _branch(f, 'accuracy')
  key = 'calibrate_threshold:accuracy'
  if br is None:
    rep.unknown(R, key, site(f), 'accuracy branch not found')
    return
  # names defined before the branch
  names = {}
  for s in f.node.body:
    if s is br:
      break
    if isinstance(s, ast.Assign) and isinstance(s.targets[0], ast.Name) and \
            ast.unparse(s.value) in ('pairs_valid.shape[0]', 'len(y_valid)',
                                     'len(pairs_valid)', 'y_valid.shape[0]'):
      names[s.targets[0].id] = ('nsamples',)
    if isinstance(s, ast.Assign) and isinstance(s.targets[0], ast.Tuple) and \
            isinstance(s.value, ast.Call) and \
            ast.unparse(s.value.func) == 'self._prepare_inputs':
      tn = [x.id for x in s.targets[0].elts if isinstance(x, ast.Name)]
      if len(tn) == 2:
        names[tn[1]] = ('labels',)
  if ('labels',) not in names.values():
    names['y_valid'] = ('labels',)
  ac = Acc(repo, f, names)
  stored = None
  try:
    for s in br.body:
      if isinstance(s, ast.Assign) and len(s.targets) == 1 and \
              isinstance(s.targets[0], ast.Name):
        ac.env[s.targets[0].id] = ac.ev(s.value)
      elif isinstance(s, ast.Assign) and \
              ast.unparse(s.targets[0]) == 'self.threshold_':
        stored = (s, None)
      elif isinstance(s, (ast.Return, ast.Expr)):
        continue
      else:
        raise Unknown('statement %s' % type(s).__name__)
  except Unknown as u:
    rep.unknown(R, key, site(f, br), 'branch outside the evaluated forms: %s'
                % u)
    return
  except Different as d_:
    rep.refuted(R, key, site(f, br), str(d_))
    return
  if stored is None:
    rep.refuted(R, key, site(f, br), 'the branch stores no threshold_')
    return
  st, val = stored
  # threshold_ = - candidates[index]
  cand = idx = None
  sv = st.value
  if isinstance(sv, ast.UnaryOp) and isinstance(sv.op, ast.USub) and \
          isinstance(sv.operand, ast.Subscript):
    try:
      cand = ac.ev(sv.operand.value)
      idx = ac.ev(sv.operand.slice)
    except Unknown as u:
      rep.unknown(R, key, site(f, st), 'stored value not derivable: %s' % u)
      return
  if cand is None:
    rep.refuted(R, key + ':threshold', site(f, st), 'threshold_ = %s is not '
                'minus a candidate score' % ast.unparse(sv))
    return
  # candidates: entry j = S[j-1], entry 0 strictly above the maximum
  ok_c = cand[:4] == ('elem', 'S', N + K(1), J - K(1)) and \
      cand[4:] == ('above',)
  rep.add(R, key + ':candidates', 'derived' if ok_c else 'refuted',
          site(f, st), '' if ok_c else 'candidate vector %r: entry j is not '
          'the lowest accepted score of cut j (with a reject-all entry '
          'first)' % (cand,))
  if idx[0] != 'argmax':
    rep.unknown(R, key + ':criterion', site(f, st), 'index %r is not an '
                'arg-max' % (idx[0],))
    return
  crit, mask = idx[1], idx[2]
  # criterion, constants dropped, prefix form: P_1(j-1) - P_-1(j-1)
  terms = {k: c for k, c in crit[2].items() if k[1].a != 0}
  want = {(1, J - K(1)): 1, (-1, J - K(1)): -1}
  pos = [c for c in terms.values() if c > 0]
  scale = pos[0] if pos else 1
  norm = {k: Fraction(c, scale) for k, c in terms.items()}
  ok_k = crit[1] == N + K(1) and norm == want
  rep.add(R, key + ':criterion', 'derived' if ok_k else 'refuted',
          site(f, st), '' if ok_k else 'criterion of cut j is %r over %r '
          'entries, documented: positives among the first j plus negatives '
          'among the others' % (terms, crit[1]))
  Rt = 'R-TIES:only-attainable-cutoffs'
  rep.rule(Rt, 'a threshold cannot separate equal scores: the arg-max of '
           'the accuracy ranges only over cuts between different scores '
           '(plus reject-all and accept-all)')
  if mask is None:
    rep.refuted(Rt, key, site(f, st), 'the arg-max ranges over every '
                'position of the sorted scores, including positions inside '
                'a group of tied scores whose cumulative accuracy no '
                'threshold attains')
  else:
    ok_m = mask == ('att', N + K(1), J)
    rep.add(Rt, key, 'derived' if ok_m else 'refuted', site(f, st),
            '' if ok_m else 'mask %r does not mark exactly the attainable '
            'cuts 0..n' % (mask,))


def rule_fbeta(repo, rep):
  R = 'R-FORM:f-beta-criterion'
  rep.rule(R, "strategy 'f_beta': (precision, recall, thresholds) = "
           'precision_recall_curve(y_valid, decision scores, pos_label=1); '
           'the criterion is (1 + beta^2) P R / (beta^2 P + R) as an exact '
           'rational function, NaN entries are set to 0 before the arg-max, '
           'threshold_ = -thresholds[arg-max]')
  f = repo.get_func(FN)
  br = _branch(f, 'f_beta')
  key = 'calibrate_threshold:f_beta'
  if br is None:
    rep.unknown(R, key, site(f), 'f_beta branch not found')
    return
  stm = [s for s in ast.walk(br) if isinstance(s, ast.Assign)]
  curve = [s for s in stm if isinstance(s.value, ast.Call) and
           canon(repo.dotted(f.module, s.value.func) or '') ==
           canon('sklearn.metrics.precision_recall_curve')]
  if len(curve) != 1 or not isinstance(curve[0].targets[0], ast.Tuple) or \
          len(curve[0].targets[0].elts) != 3:
    rep.unknown(R, key, site(f, br), 'precision_recall_curve call not found')
    return
  pn, rn, tn = [ast.unparse(x) for x in curve[0].targets[0].elts]
  _curve_args(repo, rep, R, f, curve[0].value, key)
  fb = [s for s in stm if isinstance(s.targets[0], ast.Name) and
        pn in [x.id for x in ast.walk(s.value) if isinstance(x, ast.Name)]
        and s is not curve[0]]
  if len(fb) != 1:
    rep.unknown(R, key, site(f, br), 'criterion statement not found')
    return
  fname = fb[0].targets[0].id
  P, Rr, b = Rat.sym('P'), Rat.sym('R'), Rat.sym('b')
  one = Rat.const(1)
  v = eval_expr(fb[0].value, {pn: 'P', rn: 'R', 'beta': 'b'}, {})
  want = (one + b * b) * P * Rr / (b * b * P + Rr)
  if not isinstance(v, Rat):
    rep.unknown(R, key + ':formula', site(f, fb[0]), 'criterion %s is not a '
                'rational function of precision, recall, beta'
                % ast.unparse(fb[0].value))
  elif v == want:
    rep.derived(R, key + ':formula', site(f, fb[0]),
                sample=dict(rule=R, form=repr(v)))
  else:
    rep.refuted(R, key + ':formula', site(f, fb[0]), 'criterion is %r, '
                'documented F-beta %r' % (v, want))
  # NaN -> 0 before the arg-max, arg-max of the criterion, threshold
  order = list(ast.walk(br))
  nan0 = [s for s in stm if isinstance(s.targets[0], ast.Subscript) and
          ast.unparse(s.targets[0]) in ('%s[np.isnan(%s)]' % (fname, fname),
                                        '%s[~np.isfinite(%s)]'
                                        % (fname, fname))
          and isinstance(s.value, ast.Constant) and s.value.value == 0]
  nan0 += [s for s in stm if isinstance(s.value, ast.Call) and
           canon(repo.dotted(f.module, s.value.func) or '') ==
           canon('numpy.nan_to_num') and ast.unparse(s.targets[0]) == fname
           and ast.unparse(s.value.args[0]) == fname]
  am = [s for s in stm if isinstance(s.value, ast.Call) and
        canon(repo.dotted(f.module, s.value.func) or '') ==
        canon('numpy.argmax') and len(s.value.args) == 1 and
        not s.value.keywords]
  if len(am) != 1:
    rep.unknown(R, key + ':argmax', site(f, br), 'arg-max statement not '
                'found')
    return
  a_arg = ast.unparse(am[0].value.args[0])
  if a_arg != fname:
    rep.add(R, key + ':argmax', 'refuted' if a_arg in (pn, rn, tn) else
            'unknown', site(f, am[0]), 'the arg-max is taken of %s, not of '
            'the criterion' % a_arg)
  else:
    rep.derived(R, key + ':argmax', site(f, am[0]))
  ok_n = bool(nan0) and nan0[0].lineno < am[0].lineno and \
      nan0[0].lineno > fb[0].lineno
  rep.add(R, key + ':nan-to-zero', 'derived' if ok_n else 'refuted',
          site(f, am[0]), '' if ok_n else 'undefined (0/0) criterion entries '
          'are not set to 0 before the arg-max: NaN compares as the maximum')
  iname = ast.unparse(am[0].targets[0])
  _threshold_store(rep, R, f, br, key, tn, iname)


def _curve_args(repo, rep, R, f, call, key):
  """(y_valid, self.decision_function(pairs_valid), pos_label=1)"""
  a = [ast.unparse(x) for x in call.args]
  kw = {k.arg: ast.unparse(k.value) for k in call.keywords}
  y = a[0] if a else kw.get('y_true')
  sc = a[1] if len(a) > 1 else kw.get('y_score', kw.get('probas_pred'))
  pl = a[2] if len(a) > 2 else kw.get('pos_label')
  ok = y == 'y_valid' and sc == 'self.decision_function(pairs_valid)' and \
      pl == '1'
  if ok:
    rep.derived(R, key + ':curve-arguments', site(f, call))
  elif sc is not None and sc.startswith('-') or pl == '-1' or \
          y != 'y_valid':
    rep.refuted(R, key + ':curve-arguments', site(f, call), 'curve computed '
                'from (%s, %s, pos_label=%s), documented: the validation '
                'labels, the decision scores, positive label 1' % (y, sc, pl))
  else:
    rep.unknown(R, key + ':curve-arguments', site(f, call), 'arguments '
                '(%s, %s, pos_label=%s) not recognised' % (y, sc, pl))
  return kw


def _threshold_store(rep, R, f, br, key, tn, iname, dead_guards=()):
  """every store of threshold_ in the branch is -<thresholds>[<index>]"""
  stores = [s for s in ast.walk(br) if isinstance(s, ast.Assign) and
            ast.unparse(s.targets[0]) == 'self.threshold_']
  if not stores:
    rep.refuted(R, key + ':threshold', site(f, br), 'no store of threshold_')
  for s in stores:
    conds = astutil.path_condition(br, s)
    if any(c in dead_guards for c in conds):
      # an index returned by np.where over the curve is < len(thresholds)
      rep.assume('the guard %s is infeasible: indices come from np.where '
                 'over arrays as long as thresholds' % list(dead_guards))
      continue
    t = ast.unparse(s.value)
    good = ('-%s[%s]' % (tn, iname), '-1 * %s[%s]' % (tn, iname),
            '-1.0 * %s[%s]' % (tn, iname))
    if t in good:
      rep.derived(R, key + ':threshold', site(f, s))
    elif t in ('%s[%s]' % (tn, iname),):
      rep.refuted(R, key + ':threshold', site(f, s), 'threshold_ = %s: the '
                  'scores are minus the distances, the threshold is on the '
                  'distance' % t)
    else:
      rep.unknown(R, key + ':threshold', site(f, s), 'threshold_ = %s is not '
                  'minus the candidate at the chosen index' % t)


def rule_roc(repo, rep):
  R = 'R-FORM:rate-constrained-criteria'
  rep.rule(R, "strategies 'max_tpr' / 'max_tnr': (fpr, tpr, thresholds) = "
           'roc_curve(y_valid, decision scores, pos_label=1, '
           'drop_intermediate=False) - every distinct score stays a '
           'candidate; max_tpr maximises tpr over {1 - fpr >= min_rate}, '
           'max_tnr maximises 1 - fpr over {tpr >= min_rate}; the arg-max '
           'inside the admissible set is mapped back through the index set; '
           'threshold_ = -thresholds[that index]')
  f0 = repo.get_func(FN)
  # roles: indices = the admissible index set (np.where(<cmp>)[0] /
  # flatnonzero); imax = the arg-max inside it
  roles = {}
  for n in ast.walk(f0.node):
    if isinstance(n, ast.Assign) and isinstance(n.targets[0], ast.Name):
      v = n.value
      if isinstance(v, ast.Subscript) and isinstance(v.value, ast.Call) and \
              canon(repo.dotted(f0.module, v.value.func) or '') == \
              canon('numpy.where') and ast.unparse(v.slice) == '0':
        roles[n.targets[0].id] = 'indices'
      elif isinstance(v, ast.Call) and \
              canon(repo.dotted(f0.module, v.func) or '') == \
              canon('numpy.flatnonzero') and len(v.args) == 1 and \
              isinstance(v.args[0], ast.Compare):
        roles[n.targets[0].id] = 'indices'
  ind_n = [k for k, v in roles.items() if v == 'indices']
  for n in ast.walk(f0.node):
    if isinstance(n, ast.Assign) and isinstance(n.targets[0], ast.Name) and \
            isinstance(n.value, ast.Call) and \
            canon(repo.dotted(f0.module, n.value.func) or '') == \
            canon('numpy.argmax') and n.value.args and \
            any(x in [y.id for y in ast.walk(n.value.args[0])
                      if isinstance(y, ast.Name)] for x in ind_n):
      roles[n.targets[0].id] = 'imax'
  f = astutil.role_view(f0, roles)
  key = 'calibrate_threshold:roc'
  calls = [s for s in f.node.body if isinstance(s, ast.Assign) and
           isinstance(s.value, ast.Call) and
           canon(repo.dotted(f.module, s.value.func) or '') ==
           canon('sklearn.metrics.roc_curve')]
  if len(calls) != 1 or not isinstance(calls[0].targets[0], ast.Tuple) or \
          len(calls[0].targets[0].elts) != 3:
    rep.unknown(R, key, site(f), 'roc_curve call not found at the top level')
    return
  fp, tp, tn = [ast.unparse(x) for x in calls[0].targets[0].elts]
  kw = _curve_args(repo, rep, R, f, calls[0].value, key)
  Rd = 'R-API:no-candidate-dropped'
  rep.rule(Rd, 'roc_curve is asked to keep every threshold '
           '(drop_intermediate=False): by default it removes collinear '
           'points, one of which can be the best admissible cut-off')
  di = kw.get('drop_intermediate')
  rep.add(Rd, key, 'derived' if di == 'False' else 'refuted',
          site(f, calls[0]), '' if di == 'False' else 'roc_curve called '
          'with drop_intermediate=%s: collinear candidate thresholds are '
          'removed before the admissible set is formed' % (di or 'True '
                                                          '(default)'))
  for strat, adm_want, obj_want in (
          ('max_tpr', ('tnr', fp, tp), 'tpr'), ('max_tnr', ('tpr', fp, tp),
                                                'tnr')):
    k2 = 'calibrate_threshold:' + strat
    brs = [n for n in ast.walk(f.node) if isinstance(n, ast.If) and
           ast.unparse(n.test) == "strategy == '%s'" % strat]
    if len(brs) != 1:
      rep.unknown(R, k2, site(f), 'branch not found')
      continue
    br = brs[0]
    stm = [s for s in br.body if isinstance(s, ast.Assign)]
    ind = [s for s in stm if ast.unparse(s.targets[0]) == 'indices']
    am = [s for s in stm if ast.unparse(s.targets[0]) == 'imax']
    if len(ind) != 1 or len(am) != 1:
      rep.unknown(R, k2, site(f, br), 'admissible set / arg-max statements '
                  'not found')
      continue
    # admissible set: np.where(<cmp>)[0] / np.flatnonzero(<cmp>)
    v = ind[0].value
    cmp_ = None
    if isinstance(v, ast.Subscript) and isinstance(v.value, ast.Call) and \
            canon(repo.dotted(f.module, v.value.func) or '') == \
            canon('numpy.where') and ast.unparse(v.slice) == '0' and \
            len(v.value.args) == 1:
      cmp_ = v.value.args[0]
    elif isinstance(v, ast.Call) and \
            canon(repo.dotted(f.module, v.func) or '') == \
            canon('numpy.flatnonzero') and len(v.args) == 1:
      cmp_ = v.args[0]
    c = guards.cmp_of(cmp_) if cmp_ is not None else None
    want_src = '1 - %s >= min_rate' % fp if strat == 'max_tpr' else \
        '%s >= min_rate' % tp
    cw = guards.cmp_of(ast.parse(want_src, mode='eval').body)
    if c is None:
      rep.unknown(R, k2 + ':admissible', site(f, ind[0]), 'admissible set %s '
                  'not a single linear comparison' % ast.unparse(v))
    elif c == cw:
      rep.derived(R, k2 + ':admissible', site(f, ind[0]))
    else:
      rep.refuted(R, k2 + ':admissible', site(f, ind[0]), 'admissible set is '
                  '{%s}, documented {%s}' % (ast.unparse(cmp_), want_src))
    # objective inside the admissible set
    a = am[0].value
    obj = None
    if isinstance(a, ast.Call) and \
            canon(repo.dotted(f.module, a.func) or '') == \
            canon('numpy.argmax') and len(a.args) == 1 and not a.keywords:
      obj = a.args[0]
    lin = None
    if obj is not None:
      # (1 - fpr)[indices] and 1 - fpr[indices] are the same vector
      txt = ast.unparse(obj).replace('[indices]', '')
      try:
        lin = guards.lin_of(ast.parse(txt, mode='eval').body)
      except SyntaxError:
        lin = None
      sel = '[indices]' in ast.unparse(obj)
    want_o = guards.lin_of(ast.parse(
        tp if strat == 'max_tpr' else '1 - ' + fp, mode='eval').body)
    if obj is None or lin is None or not sel:
      rep.unknown(R, k2 + ':objective', site(f, am[0]), 'objective %s not '
                  'recognised' % ast.unparse(a))
    else:
      # the arg-max is invariant under adding a constant
      same = _lin_equal_mod_const(lin, want_o)
      rep.add(R, k2 + ':objective', 'derived' if same else 'refuted',
              site(f, am[0]), '' if same else 'the arg-max is taken of %s '
              'over the admissible set, documented %s' % (
                  ast.unparse(obj), 'tpr' if strat == 'max_tpr' else
                  '1 - fpr'))
  # mapping back and the store
  outer = [n for n in ast.walk(f.node) if isinstance(n, ast.If) and
           'max_tpr' in ast.unparse(n.test) and 'max_tnr' in
           ast.unparse(n.test) and n in f.node.body]
  if len(outer) != 1:
    rep.unknown(R, key + ':map-back', site(f), 'common tail not found')
    return
  mb = [s for s in outer[0].body if isinstance(s, ast.Assign) and
        ast.unparse(s.value) == 'indices[imax]']
  if len(mb) != 1:
    alias = set(['imax']) | set(
        ast.unparse(s_.targets[0]) for s_ in outer[0].body
        if isinstance(s_, ast.Assign) and ast.unparse(s_.value) == 'imax')
    direct = [n for n in ast.walk(outer[0]) if isinstance(n, ast.Subscript)
              and ast.unparse(n.value) in (tn, fp, tp) and
              ast.unparse(n.slice) in alias]
    if direct:
      rep.refuted(R, key + ':map-back', site(f, direct[0]), '%s is indexed '
                  'by the position inside the admissible set, not by '
                  'indices[imax]' % ast.unparse(direct[0].value))
    else:
      rep.unknown(R, key + ':map-back', site(f, outer[0]), 'the index inside '
                  'the admissible set is not mapped back by indices[imax]')
    return
  rep.derived(R, key + ':map-back', site(f, mb[0]))
  _threshold_store(rep, R, f, outer[0], key, tn,
                   ast.unparse(mb[0].targets[0]),
                   dead_guards=('indices[imax] == len(%s)' % tn,
                                '%s == len(%s)' % (
                                    ast.unparse(mb[0].targets[0]), tn)))


def _lin_equal_mod_const(a, b):
  return a is not None and b is not None and a.terms == b.terms


def rule_fit_calibrates(repo, rep):
  R = 'R-FLOW:fit-calibrates-on-the-training-pairs'
  rep.rule(R, 'ITML / MMC / SDML .fit end with calibrate_threshold(pairs, y, '
           '**calibration_params), calibration_params defaulting to {} when '
           'None')
  n = 0
  for cn in ('ITML', 'MMC', 'SDML'):
    c = repo.get_class(cn)
    f = repo.resolve_method(c, 'fit')
    rep.analysed(f)
    calls = [x for x in astutil.calls_in(f.node)
             if ast.unparse(x.func) == 'self.calibrate_threshold']
    key = cn + '.fit'
    if len(calls) != 1:
      rep.refuted(R, key, site(f), 'fit does not call calibrate_threshold '
                  'exactly once')
      continue
    n += 1
    cl = calls[0]
    params = f.params()
    a = [ast.unparse(x) for x in cl.args]
    star = [ast.unparse(k.value) for k in cl.keywords if k.arg is None]
    ok = a == [params[1], params[2]] and star == ['calibration_params'] and \
        len(cl.keywords) == 1
    rep.add(R, key, 'derived' if ok else 'refuted', site(f, cl), '' if ok
            else 'calibrate_threshold(%s) is not (pairs, y, '
            '**calibration_params)' % ast.unparse(cl)[len('self.calibrate_threshold('):-1])
  rep.floor('pair learners whose fit calibrates', n, 3)


def check(repo, rep, tier):
  before = len(rep.obs)
  c06.rule_calibration_first(repo, rep)
  rule_accuracy(repo, rep)
  rule_fbeta(repo, rep)
  rule_roc(repo, rep)
  rule_fit_calibrates(repo, rep)
  rep.assume('library semantics: precision_recall_curve / roc_curve return '
             'the rates at every distinct score in decreasing order of '
             'threshold (roc_curve with drop_intermediate=False), the first '
             'ROC point rejecting every pair')
  rep.assume('decision_function is minus the learned distance and predict '
             'accepts a pair when its distance is <= threshold_ (C04)')
