"""Entry-wise (Hadamard) polynomial algebra for n x n weight matrices built
from a few named arrays by element-wise arithmetic, broadcasting, row / column
sums and transposition - the shape of the pairwise weights in the NCA and
MLKR objectives.

A value is a commutative polynomial over atoms `name@o` whose orientation o
says which index the entry depends on:

  ij / ji   a matrix / its transpose         (symmetric matrices: always ij)
  i         a column (n, 1): constant along j
  j         a row (1, n) or a 1-D vector broadcast against a matrix
  v         a 1-D vector not yet broadcast
  s         a scalar

with Fraction coefficients.  Row / column / total sums of a polynomial are
new atoms named by the canonical key of what is summed, so that two
expressions are equal exactly when they denote the same function of the
named arrays (up to the ring laws of element-wise + and *).
"""
from fractions import Fraction


class EW:
  __slots__ = ('terms', 'shape')

  def __init__(self, terms=None, shape='mat'):
    self.terms = {m: Fraction(c) for m, c in (terms or {}).items() if c != 0}
    self.shape = shape       # 'mat' | 'i' | 'j' | 'v' | 's'

  @staticmethod
  def atom(name, orient, shape=None):
    shp = shape or {'ij': 'mat', 'ji': 'mat', 'i': 'i', 'j': 'j', 'v': 'v',
                    's': 's'}[orient]
    return EW({((name, orient),): 1}, shp)

  @staticmethod
  def const(c):
    return EW({(): Fraction(c)}, 's')

  def key(self):
    return tuple(sorted((tuple(m), c) for m, c in self.terms.items()))

  def __eq__(self, o):
    return isinstance(o, EW) and self.key() == o.key()

  def __hash__(self):
    return hash(self.key())

  def _reorient(self, frm, to):
    t = {}
    for m, c in self.terms.items():
      nm = tuple(sorted((n, to if o == frm else o) for (n, o) in m))
      t[nm] = t.get(nm, 0) + c
    return t

  def as_col(self):
    """v[:, None]"""
    if self.shape != 'v':
      return None
    return EW(self._reorient('v', 'i'), 'i')

  def as_row(self):
    if self.shape != 'v':
      return None
    return EW(self._reorient('v', 'j'), 'j')

  @staticmethod
  def _align(a, b):
    """numpy broadcasting of the two shapes -> (a', b', result shape)"""
    sa, sb = a.shape, b.shape
    if sa == sb:
      return a, b, sa
    if 's' in (sa, sb):
      return a, b, sb if sa == 's' else sa
    # a 1-D vector against anything 2-D aligns with the last axis
    if sa == 'v' and sb in ('mat', 'i', 'j'):
      a = a.as_row()
      sa = 'j'
    if sb == 'v' and sa in ('mat', 'i', 'j'):
      b = b.as_row()
      sb = 'j'
    if sa == sb:
      return a, b, sa
    return a, b, 'mat'

  def add(self, o, sign=1):
    a, b, shp = EW._align(self, o)
    t = dict(a.terms)
    for m, c in b.terms.items():
      t[m] = t.get(m, 0) + sign * c
    return EW(t, shp)

  def mul(self, o):
    a, b, shp = EW._align(self, o)
    t = {}
    for m1, c1 in a.terms.items():
      for m2, c2 in b.terms.items():
        m = tuple(sorted(m1 + m2))
        t[m] = t.get(m, 0) + c1 * c2
    return EW(t, shp)

  def scale(self, c):
    return EW({m: v * Fraction(c) for m, v in self.terms.items()}, self.shape)

  def T(self):
    sw = {'ij': 'ji', 'ji': 'ij', 'i': 'j', 'j': 'i', 'v': 'v', 's': 's'}
    t = {}
    for m, c in self.terms.items():
      nm = tuple(sorted((n, o if n in SYMMETRIC and o in ('ij', 'ji')
                         else sw[o]) for (n, o) in m))
      nm = tuple(sorted((n, 'ij' if n in SYMMETRIC and o == 'ji' else o)
                        for (n, o) in nm))
      t[nm] = t.get(nm, 0) + c
    return EW(t, {'i': 'j', 'j': 'i'}.get(self.shape, self.shape))

  def _unit(self):
    """(leading coefficient, self / leading coefficient): sums are linear,
    so the atom that names a sum is keyed by the polynomial scaled to a
    leading coefficient of 1 and the factor is kept outside"""
    if not self.terms:
      return Fraction(0), self
    lead = sorted(self.terms.items())[0][1]
    return lead, self.scale(Fraction(1) / lead)

  def rowsum(self, keepdims):
    """sum over j (axis=1)"""
    if self.shape != 'mat':
      return None
    lead, u = self._unit()
    return EW.atom('rs[%r]' % (u.key(),),
                   'i' if keepdims else 'v').scale(lead)

  def colsum(self, keepdims=False):
    """sum over i (axis=0)"""
    if self.shape != 'mat':
      return None
    lead, u = self._unit()
    return EW.atom('cs[%r]' % (u.key(),),
                   'j' if keepdims else 'v').scale(lead)

  def total(self):
    lead, u = self._unit()
    return EW.atom('tot[%r]' % (u.key(),), 's').scale(lead)

  def __repr__(self):
    if not self.terms:
      return '0'
    out = []
    for m, c in sorted(self.terms.items()):
      out.append('%s*%s' % (c, '.'.join('%s@%s' % a for a in m) or '1'))
    return ' + '.join(out)


# names of atoms that denote symmetric matrices (never transposed)
SYMMETRIC = set()
