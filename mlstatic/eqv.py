"""EQV domain: equivariance typing of values under (a) translation of all
points by one vector and (b) swapping the two points inside each training
pair (both pairs of a quadruplet).

payload = (trans, par)
  trans: 'Inv'            unchanged by the translation
         'Abs'            moves with the points (x -> x + t), row-wise
         ('Lin', key)     linear image of an Abs value (x W -> x W + t W)
         'Dep'            recognised non-invariant use of absolute coordinates
         'Unk'            operation outside the table on a non-invariant value
  par:   'E' even (unchanged by the swap) | 'O' odd (negated) |
         ('S', i) slot i of a tuple array | 'T' tuple array | 'X' affected /
         unknown"""
import ast
from .engine import Domain, V, NOCONST
from .tags import EventsMixin
from .model import canon, resolve_object

INV_E = ('Inv', 'E')


def tr(v):
  d = v.d if isinstance(v, V) else v
  return d[0] if d else 'Inv'


def pa(v):
  d = v.d if isinstance(v, V) else v
  return d[1] if d else 'E'


def _all(v):
  out = [v]
  if isinstance(v, V):
    if v.elts is not None:
      for x in v.elts:
        out.extend(_all(x))
    if v.kv is not None:
      for x in v.kv.values():
        out.extend(_all(x))
  return out


def worst_tr(vals):
  ts = [tr(x) for v in vals for x in _all(v)]
  for k in ('Dep', 'Unk'):
    if k in ts:
      return k
  if any(t != 'Inv' for t in ts):
    return 'Unk'
  return 'Inv'


def worst_pa(vals):
  ps = [pa(x) for v in vals for x in _all(v)]
  if all(p == 'E' for p in ps):
    return 'E'
  if 'B' in ps or ('S', 'mix') in ps:
    return 'B'          # slots of different pairs were combined: sticky
  return 'X'


PARTNER = {0: 1, 1: 0, 2: 3, 3: 2}


class EqvDomain(EventsMixin, Domain):
  name = 'eqv'

  def __init__(self, tuple_learner=False):
    self._ev_init()
    self.tuple_learner = tuple_learner
    self.sinks = []

  def top(self, node=None):
    return INV_E

  def const(self, value, node=None):
    return INV_E

  def join(self, a, b):
    if a == b:
      return a
    a = a or INV_E
    b = b or INV_E
    t = a[0] if a[0] == b[0] else worst_tr([a, b]) if 'Inv' not in (
        a[0], b[0]) or a[0] in ('Dep', 'Unk') or b[0] in ('Dep', 'Unk') \
        else (a[0] if a[0] != 'Inv' else b[0])
    p = a[1] if a[1] == b[1] else (
        'B' if {a[1], b[1]} & {'B', ('S', 'mix')} else 'X')
    return (t, p)

  def param(self, func, name, index):
    return INV_E

  def hyperparam(self, cls, name, node):
    return INV_E

  def fitted_read(self, cls, name, node, st):
    return INV_E

  def summary(self, target, args, kwargs, node, st):
    if target.key == 'base_metric.MahalanobisMixin.pair_distance':
      # the learned distance of a pair: translation invariant and symmetric
      # in the two points (that is C01's derivation, not repeated here)
      return INV_E
    if target.key == 'rca._chunk_mean_centering' and \
            getattr(self, 'centring_certified', False):
      # every kept row has the mean of its own chunk subtracted (certified
      # by the structural rules of C09 on this very function)
      return V(INV_E, elts=(V(INV_E), V(INV_E)))
    if target.key == '_util.check_input':
      # value identity (justified by C05/C06's validator rules)
      x = args[0] if args else kwargs.get('input_data')
      y = args[1] if len(args) > 1 else kwargs.get('y')
      if y is None or (y.c is not NOCONST and y.const() is None):
        return x
      return V(INV_E, elts=(x, y))
    if target.name == '_prepare_inputs' and target.cls is not None:
      y = args[2] if len(args) > 2 else kwargs.get('y')
      toi = kwargs.get('type_of_inputs')
      is_t = toi is not None and toi.const() == 'tuples'
      x0 = args[1] if len(args) > 1 else kwargs.get('X')
      if x0 is not None and x0.d is not None and x0.d != INV_E:
        xd = x0.d
      else:
        xd = ('Abs', 'T' if (is_t and self.tuple_learner) else 'E')
      x = V(xd)
      if y is None or (y.c is not NOCONST and y.const() is None):
        return x
      return V(INV_E, elts=(x, V(INV_E)))
    return None

  # ------------------------------------------------------------ operators
  def binop(self, op, l, r, node, st):
    tl, trr = tr(l), tr(r)
    pl, pr = pa(l), pa(r)
    # --- translation
    if isinstance(op, ast.Sub):
      if tl == trr and tl in ('Abs', 'AbsT') or (isinstance(tl, tuple) and tl == trr):
        t = 'Inv'
      elif trr == 'Inv':
        t = tl
      elif tl == 'Inv' and trr in ('Abs',) or (tl == 'Inv' and
                                              isinstance(trr, tuple)):
        t = 'Dep'          # c - x : reflects, then translates by -t
      else:
        t = worst_tr([l, r]) if 'Dep' in (tl, trr) or 'Unk' in (tl, trr) \
            else 'Dep'
    elif isinstance(op, ast.Add):
      if tl == 'Inv':
        t = trr
      elif trr == 'Inv':
        t = tl
      else:
        t = 'Dep' if 'Unk' not in (tl, trr) else 'Unk'
    else:
      if tl == 'Inv' and trr == 'Inv':
        t = 'Inv'
      elif 'Dep' in (tl, trr) and isinstance(op, (ast.Mult, ast.Div)):
        t = 'Dep'        # a dependent factor is not cancelled by the other
      elif 'Unk' in (tl, trr):
        t = 'Unk'
      elif isinstance(op, ast.MatMult):
        t = self._lin(l, r, node)[0]
      elif isinstance(op, (ast.Mult, ast.Div)) and trr == 'Inv' and \
              (tl == 'Abs' or isinstance(tl, tuple)):
        # x * w moves by t * w: a linear image, cancelled by the same image
        # of the partner point
        t = ('Lin', (tl[1] if isinstance(tl, tuple) else '') +
             ('*' if isinstance(op, ast.Mult) else '/') + self._key(r, node, 1))
      elif isinstance(op, ast.Mult) and tl == 'Inv' and \
              (trr == 'Abs' or isinstance(trr, tuple)):
        t = ('Lin', (trr[1] if isinstance(trr, tuple) else '') + '*' +
             self._key(l, node, 0))
      else:
        t = 'Dep'
    # --- swap parity
    lin = isinstance(op, (ast.Mult, ast.Div, ast.MatMult))
    if pl == 'E' and pr == 'E':
      p = 'E'
    elif isinstance(op, ast.Sub) and isinstance(pl, tuple) and \
            isinstance(pr, tuple) and PARTNER.get(pl[1]) == pr[1]:
      p = 'O'
    elif isinstance(op, ast.Add) and isinstance(pl, tuple) and \
            isinstance(pr, tuple) and PARTNER.get(pl[1]) == pr[1]:
      p = 'E'
    elif lin and {pl, pr} == {'O'} and not isinstance(op, ast.Div):
      p = 'E'
    elif lin and {pl, pr} == {'O', 'E'}:
      p = 'O' if not (isinstance(op, ast.Div) and pr == 'O') else 'O'
    elif isinstance(op, (ast.Add, ast.Sub)) and pl == 'O' and pr == 'O':
      p = 'O'
    elif isinstance(op, ast.Pow) and pl == 'O' and pr == 'E':
      c = r.const()
      p = 'E' if isinstance(c, int) and c % 2 == 0 else 'X'
    elif 'B' in (pl, pr) or ('S', 'mix') in (pl, pr):
      p = 'B'
    elif isinstance(pl, tuple) and isinstance(pr, tuple):
      p = ('S', 'mix')     # slots of different pairs combined
    elif isinstance(pl, tuple) and pr == 'E':
      p = pl               # still specific to one slot
    elif isinstance(pr, tuple) and pl == 'E':
      p = pr
    else:
      p = 'X'
    return (t, p)

  def unop(self, op, v, node, st):
    if isinstance(op, ast.USub):
      t = tr(v)
      return ('Dep' if t not in ('Inv', 'Dep', 'Unk') else t, pa(v))
    if isinstance(op, ast.Not):
      return (worst_tr([v]), 'E' if pa(v) in ('E', 'O') else 'X')
    return (tr(v), pa(v))

  def compare(self, ops, vals, node, st):
    if all(isinstance(o, (ast.Is, ast.IsNot)) for o in ops):
      return INV_E
    return (worst_tr(vals), worst_pa(vals))

  def boolop(self, op, vals, node, st):
    return (worst_tr(vals), worst_pa(vals))

  def ifexp(self, test, a, b, node, st):
    return self.join(a.d, b.d)

  def attr(self, v, name, node, st):
    if name == 'ndim' and pa(v) == 'T':
      return V(INV_E, c=frozenset([3]))       # tuple arrays are 3-D
    if name in ('shape', 'ndim', 'size', 'dtype'):
      return INV_E
    if name == 'T':
      t = tr(v)
      return ({'Abs': 'AbsT', 'AbsT': 'Abs'}.get(t, t), pa(v))
    if name == 'real':
      return (tr(v), pa(v))
    if v.origin and v.origin[0] == 'extfit':
      if name in ('components_', 'scalings_', 'explained_variance_',
                  'labels_', 'x', 'nit', 'success', 'message'):
        return INV_E
      if name in ('cluster_centers_', 'mean_', 'means_', 'xbar_'):
        return ('Abs', 'E')
    if tr(v) == 'Inv' and pa(v) == 'E':
      return INV_E
    return (worst_tr([v]), worst_pa([v]))

  def subscript(self, v, idx, node, st):
    t = tr(v)
    ivs = []
    for p in idx:
      if p[0] == 'expr':
        ivs.append(p[1])
      elif p[0] == 'slice':
        ivs.extend(x for x in p[1:] if x is not None)
    if any(tr(x) != 'Inv' for x in ivs):
      t = worst_tr([v] + ivs) if t == 'Inv' else 'Unk'
    p = pa(v)
    if p == 'T':
      # tuple array: [:, i] / [:, i, :] selects a slot; row selection keeps T
      if len(idx) >= 2 and idx[0][0] == 'slice' and idx[1][0] == 'expr':
        c = idx[1][1].const()
        if isinstance(c, int) and not isinstance(c, bool):
          p = ('S', c)
        elif idx[1][1].elts is not None:
          p = 'X'
        else:
          p = 'X'
      elif len(idx) >= 2 and idx[0][0] == 'slice' and idx[1][0] == 'slice':
        p = 'X'
      elif len(idx) == 1:
        p = 'T' if all(pa(x) == 'E' for x in ivs) else 'X'
      else:
        p = 'X'
    elif p in ('E', 'O') or isinstance(p, tuple):
      if not all(pa(x) == 'E' for x in ivs):
        p = 'X'
    return (t, p)

  def tuple(self, elts, node, st):
    return (worst_tr(elts) if any(tr(e) in ('Dep', 'Unk') for e in elts)
            else 'Inv', 'E')

  def dict(self, kv, node, st):
    return INV_E

  def fstring(self, vals, node, st):
    return INV_E

  def comprehension(self, elt, iters, node, st):
    return (tr(elt) if tr(elt) in ('Inv', 'Dep', 'Unk') else 'Unk',
            pa(elt) if pa(elt) in ('E',) else 'X')

  def iter_elem(self, v, node, st):
    if v.origin == ('enum',):
      inner = self.iter_elem(V(v.d, elts=v.elts), node, st)
      return V(INV_E, elts=(V(INV_E), inner))
    if v.origin == ('zip',) and v.elts is not None:
      return V(INV_E, elts=tuple(self.iter_elem(x, node, st)
                                 for x in v.elts))
    if v.elts:
      out = None
      for x in v.elts:
        out = x if out is None else self.eng.join_v(out, x)
      return out
    p = pa(v)
    return V((tr(v), p if p in ('E', 'O') else 'X'))

  def unpack(self, v, n, node, st):
    # unpacking along the first axis of an array of points yields points
    return [V((tr(v), 'E' if pa(v) == 'E' else 'X')) for _ in range(n)]

  # ----------------------------------------------------------------- calls
  def _lin(self, a, b, node):
    """dot-like product a . b"""
    ta, tb = tr(a), tr(b)
    pa_, pb = pa(a), pa(b)
    if ta == 'Inv' and tb == 'Inv':
      t = 'Inv'
    elif ta in ('Abs',) and tb == 'Inv':
      t = ('Lin', ast.unparse(node)[:0] + self._key(b, node, 1))
    elif ta == 'AbsT' and tb == 'Inv':
      # X^T W contracts the sample axis: the offset t 1^T W vanishes exactly
      # when W annihilates constant vectors (a graph Laplacian, a centring
      # or incidence matrix).  When W may be such a matrix by construction
      # (z bit), 'S:' marks the value so that a later "dependent" verdict is
      # weakened to "unknown"
      t = ('Lin', ('S:' if zc(b) else '') + self._key(b, node, 1))
    elif tb == 'AbsT' and ta == 'Inv':
      t = ('Lin', self._key(a, node, 0))
    elif tb in ('Abs',) and ta == 'Inv':
      # W X (sample-axis contraction) or A v (feature axis, 1-D v)
      t = ('Lin', ('S:' if zc(a) else '') + self._key(a, node, 0))
    elif 'Unk' in (ta, tb):
      t = 'Unk'
    elif isinstance(ta, tuple) and tb == 'Inv':
      t = ('Lin', ta[1] + '*' + self._key(b, node, 1))
    elif isinstance(tb, tuple) and ta == 'Inv':
      t = ('Lin', self._key(a, node, 0) + '*' + tb[1])
    else:
      t = 'Dep'
    if pa_ == 'E' and pb == 'E':
      p = 'E'
    elif {pa_, pb} == {'O'}:
      p = 'E'
    elif {pa_, pb} == {'O', 'E'}:
      p = 'O'
    else:
      p = worst_pa([a, b])
    return (t, p)

  def _key(self, v, node, pos):
    return str(id(v.d)) if False else (v.origin[1] if v.origin and
                                       len(v.origin) > 1 and
                                       isinstance(v.origin[1], str)
                                       else 'M')

  def ext_call(self, dotted, args, kwargs, node, st, eng):
    allv = list(args) + list(kwargs.values())
    name = dotted.rsplit('.', 1)[-1]
    top = dotted.split('.')[0]
    a0 = args[0] if args else None
    if dotted in ('builtins.len', 'builtins.isinstance', 'builtins.type',
                  'builtins.range', 'builtins.print', 'builtins.callable',
                  'time.time', 'warnings.warn', 'builtins.hasattr',
                  'builtins.getattr', 'builtins.int', 'builtins.float',
                  'builtins.str', 'builtins.bool'):
      if name in ('int', 'float') and a0 is not None:
        return (tr(a0), pa(a0))
      return INV_E
    if dotted == 'builtins.enumerate' and a0 is not None:
      return V(a0.d, origin=('enum',), elts=a0.elts)
    if dotted == 'builtins.zip':
      return V(INV_E, origin=('zip',), elts=tuple(args))
    if dotted in ('builtins.reversed', 'builtins.list', 'builtins.tuple',
                  'builtins.sorted', 'builtins.iter') and a0 is not None:
      return V(a0.d, elts=a0.elts, origin=a0.origin)
    if dotted in ('builtins.min', 'builtins.max', 'builtins.sum',
                  'builtins.abs', 'builtins.any', 'builtins.all'):
      ts = [tr(x) for v in allv for x in _all(v)]
      ps = [pa(x) for v in allv for x in _all(v)]
      return ('Inv' if all(t == 'Inv' for t in ts) else
              'Unk' if 'Unk' in ts else 'Dep',
              'E' if all(p == 'E' for p in ps) else
              'E' if dotted == 'builtins.abs' and all(p in ('E', 'O')
                                                      for p in ps) else 'X')
    if name in ('cov',) and a0 is not None:
      return ('Inv' if tr(a0) in ('Inv', 'Abs', 'AbsT') or isinstance(tr(a0), tuple)
              else tr(a0), 'E' if pa(a0) == 'E' else 'X')
    if name in ('pairwise_distances', 'euclidean_distances'):
      xs = [a for a in args[:2]]
      y = kwargs.get('Y')
      if y is not None:
        xs.append(y)
      ts = set(tr(x) for x in xs)
      if ts <= {'Inv'}:
        t = 'Inv'
      elif len(ts) == 1 and (ts <= {'Abs'} or isinstance(next(iter(ts)),
                                                         tuple)):
        t = 'Inv'
      else:
        t = worst_tr(xs) if ts & {'Dep', 'Unk'} else 'Dep'
      return (t, worst_pa(xs))
    if name in ('dot', 'matmul', 'outer', 'inner', 'kron') and len(args) == 2:
      if name == 'outer':
        t = 'Inv' if tr(args[0]) == tr(args[1]) == 'Inv' else (
            'Unk' if 'Unk' in (tr(args[0]), tr(args[1])) else 'Dep')
        ps = {pa(args[0]), pa(args[1])}
        p = 'E' if ps == {'E'} or ps == {'O'} else 'O' if ps == {'O', 'E'} \
            else 'X'
        return (t, p)
      return self._lin(args[0], args[1], node)
    if name == 'einsum' and len(args) >= 2:
      ops = args[1:]
      ts = [tr(x) for x in ops]
      t = 'Inv' if all(x == 'Inv' for x in ts) else (
          'Unk' if 'Unk' in ts else 'Dep')
      ps = [pa(x) for x in ops]
      nodd = sum(1 for x in ps if x == 'O')
      if all(x in ('E', 'O') for x in ps):
        p = 'E' if nodd % 2 == 0 else 'O'
      else:
        p = 'X'
      return (t, p)
    if name in ('unique', 'vstack', 'hstack', 'column_stack', 'concatenate',
                'copy', 'asarray', 'asanyarray', 'array', 'atleast_2d',
                'atleast_1d', 'ascontiguousarray', 'squeeze', 'ravel',
                'reshape', 'take', 'sort', 'tile', 'repeat', 'stack',
                'check_array', 'transpose') and a0 is not None:
      src = _all(a0)
      ts = set(tr(x) for x in src if tr(x) != 'Inv' or x is a0)
      ts.discard('Inv')
      if not ts:
        t = 'Inv'
      elif len(ts) == 1:
        t = ts.pop()
      else:
        t = 'Unk' if 'Unk' in ts else 'Dep'
      ps = set(pa(x) for x in src)
      if name in ('unique',) and ps <= {'T', 'E'} and \
              kwargs.get('axis') is not None:
        p = 'E'          # set of distinct points: order by value
      elif name == 'vstack' and ps <= {'T', 'E'}:
        p = 'T' if 'T' in ps else 'E'
      elif ps <= {'E'}:
        p = 'E'
      elif ps <= {'O'} or ps <= {'O', 'E'} and name in ('copy', 'asarray',
                                                         'array', 'ravel',
                                                         'reshape',
                                                         'transpose'):
        p = 'O' if 'O' in ps else 'E'
      else:
        p = 'X'
      if name == 'unique' and (kwargs.get('return_inverse') is not None or
                               kwargs.get('return_counts') is not None):
        return V(INV_E, elts=(V((t, p)), V(INV_E)))
      return (t, p)
    if name in ('sqrt', 'abs', 'absolute', 'square', 'exp', 'log', 'sign',
                'maximum', 'minimum', 'isfinite', 'isnan', 'linalg.norm',
                'norm', 'sum', 'mean', 'max', 'min', 'percentile', 'diag',
                'fill_diagonal', 'eigh', 'eig', 'cholesky', 'inv', 'pinvh',
                'pinv', 'slogdet', 'logsumexp', 'argsort', 'argmax', 'argmin',
                'where', 'nonzero', 'any', 'all', 'allclose', 'array_equal',
                'isclose', 'lstsq', 'matrix_rank', 'qr', 'eigsh', 'cumsum',
                'bincount', 'arange', 'zeros', 'ones', 'eye', 'empty',
                'zeros_like', 'ones_like', 'full_like', 'logspace',
                'linspace', 'finfo', 'ceil', 'floor', 'assert_all_finite',
                'stable_cumsum', 'roc_curve', 'roc_auc_score',
                'precision_recall_curve', 'normalize', 'make_spd_matrix',
                'check_random_state', 'minimize', 'graphical_lasso',
                '_graphical_lasso', 'unravel_index', 'ravel_multi_index',
                'take_along_axis', 'full', 'nan_to_num', 'trace', 'divide',
                'multiply', 'conjugate', 'partition', 'Counter', 'vector_norm',
                'svd', 'svdvals', 'det', 'solve', 'eigvalsh', 'eigvals',
                'std', 'var', 'median', 'average', 'ptp'):
      ts = [tr(x) for v in allv for x in _all(v)]
      if all(t == 'Inv' for t in ts):
        t = 'Inv'
      elif name in ('mean',) and a0 is not None and tr(a0) in ('Abs',) and \
              self._axis0(kwargs, args):
        t = 'Abs'
      elif name in ('zeros_like', 'ones_like', 'full_like'):
        t = 'Inv'
      elif 'Unk' in ts:
        t = 'Unk'
      else:
        t = 'Dep'
      ps = [pa(x) for v in allv for x in _all(v)]
      if all(p == 'E' for p in ps):
        p = 'E'
      elif name in ('abs', 'absolute', 'square', 'norm') and \
              all(p in ('E', 'O') for p in ps):
        p = 'E'
      elif name in ('zeros_like', 'ones_like', 'full_like'):
        p = 'E'
      elif name in ('sum', 'mean', 'diag', 'cumsum', 'conjugate', 'divide',
                    'multiply') and set(ps) <= {'O', 'E'} and \
              ps.count('O') == 1:
        p = 'O'
      else:
        p = 'X'
      if name in ('eigh', 'eig', 'eigsh', 'qr', 'slogdet', 'lstsq',
                  'roc_curve', 'precision_recall_curve', 'svd'):
        return V((t, p), elts=None)
      return (t, p)
    # scikit-learn estimators: fitted attributes handled in attr()
    obj = resolve_object(dotted) if top in ('sklearn',) else None
    if isinstance(obj, type):
      return V(INV_E, origin=('ext', dotted))
    ts = [tr(x) for v in allv for x in _all(v)]
    if all(t == 'Inv' for t in ts) and all(
            pa(x) == 'E' for v in allv for x in _all(v)):
      return INV_E
    return ('Unk' if any(t != 'Inv' for t in ts) else 'Inv',
            worst_pa(allv))

  def _axis0(self, kwargs, args):
    a = kwargs.get('axis') or (args[1] if len(args) > 1 else None)
    return a is not None and a.const() == 0

  def method_call(self, recv, name, args, kwargs, node, st, eng):
    allv = [recv] + list(args) + list(kwargs.values())
    if recv.origin and recv.origin[0] in ('ext', 'extfit'):
      if name == 'fit':
        return V(INV_E, origin=('extfit', recv.origin[1]))
      if name in ('kneighbors', 'predict', 'transform', 'fit_transform'):
        return INV_E
      return INV_E
    if name == 'dot' and len(args) == 1:
      return self._lin(recv, args[0], node)
    if name == 'transpose' and not args and not kwargs:
      t = tr(recv)
      return ({'Abs': 'AbsT', 'AbsT': 'Abs'}.get(t, t), pa(recv))
    if name in ('copy', 'ravel', 'reshape', 'astype', 'squeeze', 'flatten',
                'transpose', 'tolist', 'conj'):
      return (tr(recv), pa(recv))
    if name == 'mean' and tr(recv) == 'Abs' and self._axis0(kwargs, [recv] +
                                                             list(args)):
      return ('Abs', 'E' if pa(recv) == 'E' else 'X')
    if name in ('sum', 'mean', 'max', 'min', 'std', 'var', 'prod', 'any',
                'all', 'argmax', 'argmin', 'argsort', 'cumsum', 'trace',
                'nonzero', 'flatten'):
      t = tr(recv)
      t = t if t in ('Inv', 'Unk', 'Dep') else 'Dep'
      p = pa(recv)
      if p not in ('E', 'O'):
        p = 'X'
      elif name in ('max', 'min', 'std', 'var', 'prod', 'any', 'all',
                    'argmax', 'argmin', 'argsort', 'nonzero') and p == 'O':
        p = 'X'
      return (t, p)
    if name in ('format', 'join', 'append', 'add', 'update', 'keys',
                'items', 'values', 'flush', 'difference_update', 'most_common'):
      return (worst_tr(allv) if name in ('append', 'add', 'update') else
              'Inv', worst_pa(allv) if name in ('append', 'add', 'update')
              else 'E')
    ts = [tr(x) for v in allv for x in _all(v)]
    if all(t == 'Inv' for t in ts):
      return ('Inv', worst_pa(allv))
    return ('Unk', worst_pa(allv))

  def value_call(self, callee, args, kwargs, node, st):
    return INV_E

  def unknown_call(self, node, st):
    return INV_E

  def on_augassign(self, kind, target, op, val, node, st):
    return self.binop(op, target, val, node, st)

  def on_store_subscript(self, target, idx, val, node, st):
    # weak update of the content abstraction
    return self.join(target.d, val.d) if target.d is not None else val.d

  def on_store_attr(self, objv, attr, val, node, st):
    EventsMixin.on_store_attr(self, objv, attr, val, node, st)
    if objv.obj is not None and objv.obj.oid == 'self' and \
            attr in ('components_', 'threshold_', 'bounds_'):
      ts = [tr(x) for x in _all(val)]
      ps = [pa(x) for x in _all(val)]
      t = 'Inv' if all(x == 'Inv' for x in ts) else (
          'Dep' if 'Dep' in ts else 'Unk' if 'Unk' in ts else 'Dep')
      if all(x == 'E' for x in ps):
        p = 'E'
      elif any(x in ('O', 'B') or isinstance(x, tuple) for x in ps):
        p = 'O'          # an odd / slot-specific quantity reaches the sink
      else:
        p = 'X'          # not derivable
      self.sinks.append((attr, t, p, self.site(node)))


def _has_b(vals):
  for v in vals:
    for x in _all(v):
      if pa(x) in ('B', ('S', 'mix')):
        return True
  return False


def _fix(res, vals):
  """cross-pair slot mixing is sticky through every operation"""
  if not _has_b(vals):
    return res
  if isinstance(res, V):
    if res.d is not None and res.d[1] in ('X', 'E', 'O'):
      return res.with_(d=(res.d[0], 'B'))
    return res
  if isinstance(res, tuple) and len(res) == 2 and res[1] in ('X', 'E', 'O'):
    return (res[0], 'B')
  return res


class P(tuple):
  """payload (trans, par) carrying one more bit: `z` - an invariant value that
  may annihilate constant vectors by construction (difference of invariant
  arrays, array filled by element stores, anything computed from such)"""
  def __new__(cls, t, p, z=False):
    o = tuple.__new__(cls, (t, p))
    o.z = z
    return o


def zc(v):
  return any(getattr(x.d if isinstance(x, V) else x, 'z', False)
             for x in _all(v))


def _s_lin(v):
  for x in _all(v):
    t = tr(x)
    if isinstance(t, tuple) and str(t[1]).startswith('S:'):
      return True
  return False


def _post(res, operands, z=False):
  """(1) 'Dep' computed from a sample-axis-contracted operand is only 'Unk';
  (2) the z bit is inherited from the operands."""
  operands = [o for o in operands if o is not None]
  d = res.d if isinstance(res, V) else res
  if not (isinstance(d, tuple) and len(d) == 2):
    return res
  t, p = d
  if t == 'Dep' and any(_s_lin(o) for o in operands) and not any(
          tr(x) == 'Dep' for o in operands for x in _all(o)):
    t = 'Unk'
  z = z or any(zc(o) for o in operands)
  if t == d[0] and not z:
    return res
  nd = P(t, p, z)
  if isinstance(res, V):
    return res.with_(d=nd)
  return nd


def _is_arr_inv(v):
  return tr(v) == 'Inv' and not (isinstance(v, V) and v.c is not NOCONST)


def _install_post():
  C = EqvDomain
  b, u, e, m, l, a, sub, j, st_ = (C.binop, C.unop, C.ext_call,
                                   C.method_call, C._lin, C.attr,
                                   C.subscript, C.join, C.on_store_subscript)
  C.binop = lambda self, op, x, y, node, st: _post(
      b(self, op, x, y, node, st), [x, y],
      z=isinstance(op, ast.Sub) and _is_arr_inv(x) and _is_arr_inv(y))
  C.unop = lambda self, op, v, node, st: _post(
      u(self, op, v, node, st), [v])
  C.ext_call = lambda self, dotted, args, kwargs, node, st, eng: \
      _post(e(self, dotted, args, kwargs, node, st, eng),
            list(args) + list(kwargs.values()),
            z=any(k in dotted.rsplit('.', 1)[-1].lower()
                  for k in ('laplacian', 'center', 'centre')))
  C.method_call = lambda self, recv, name, args, kwargs, node, st, eng: \
      _post(m(self, recv, name, args, kwargs, node, st, eng),
            [recv] + list(args) + list(kwargs.values()))
  C._lin = lambda self, x, y, node: _post(l(self, x, y, node), [x, y])
  C.attr = lambda self, v, name, node, st: _post(
      a(self, v, name, node, st), [v])
  C.subscript = lambda self, v, idx, node, st: _post(
      sub(self, v, idx, node, st), [v])

  def join(self, x, y):
    r = j(self, x, y)
    if getattr(x, 'z', False) or getattr(y, 'z', False):
      return P(r[0], r[1], True)
    return r
  C.join = join

  def on_store_subscript(self, target, idx, val, node, st):
    r = st_(self, target, idx, val, node, st)
    return P(r[0], r[1], True) if r is not None and r[0] == 'Inv' else r
  C.on_store_subscript = on_store_subscript


_install_post()


class StickyEqvDomain(EqvDomain):
  def binop(self, op, l, r, node, st):
    return _fix(EqvDomain.binop(self, op, l, r, node, st), [l, r])

  def unop(self, op, v, node, st):
    return _fix(EqvDomain.unop(self, op, v, node, st), [v])

  def compare(self, ops, vals, node, st):
    return _fix(EqvDomain.compare(self, ops, vals, node, st), vals)

  def attr(self, v, name, node, st):
    return _fix(EqvDomain.attr(self, v, name, node, st), [v])

  def subscript(self, v, idx, node, st):
    return _fix(EqvDomain.subscript(self, v, idx, node, st), [v])

  def iter_elem(self, v, node, st):
    return _fix(EqvDomain.iter_elem(self, v, node, st), [v])

  def unpack(self, v, n, node, st):
    return [_fix(x, [v]) for x in EqvDomain.unpack(self, v, n, node, st)]

  def ext_call(self, dotted, args, kwargs, node, st, eng):
    return _fix(EqvDomain.ext_call(self, dotted, args, kwargs, node, st, eng),
                list(args) + list(kwargs.values()))

  def method_call(self, recv, name, args, kwargs, node, st, eng):
    return _fix(EqvDomain.method_call(self, recv, name, args, kwargs, node,
                                      st, eng),
                [recv] + list(args) + list(kwargs.values()))

  def on_augassign(self, kind, target, op, val, node, st):
    return _fix(EqvDomain.on_augassign(self, kind, target, op, val, node, st),
                [target, val])
