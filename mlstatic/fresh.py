"""FRESH domain: ownership / aliasing of array objects.

payload = (roots, kind)
  roots  frozenset of objects of the caller (or of the fitted model) the
         value may alias: ('param', p) | ('hyper', h) | ('fitted', a);
         empty = freshly created inside the analysed code
  kind   'imm' immutable scalar/str, 'arr' ndarray-like, 'unk'

View-producing operations propagate roots, copy-producing ones return
fresh values (closed table: documented numpy / scikit-learn behaviour).
In-place write constructs on a value with non-empty roots are recorded."""
import ast
from .engine import Domain, V, NOCONST
from .tags import EventsMixin
from .model import canon, FuncInfo

E = frozenset()
FRESH_ARR = (E, 'arr')
IMM = (E, 'imm')
UNK = (E, 'unk')

VIEW_FUNCS = set(canon(x) for x in (
    'numpy.asarray', 'numpy.asanyarray', 'numpy.atleast_1d',
    'numpy.atleast_2d', 'numpy.atleast_3d', 'numpy.ravel', 'numpy.reshape',
    'numpy.squeeze', 'numpy.transpose', 'numpy.swapaxes', 'numpy.moveaxis',
    'numpy.expand_dims', 'numpy.broadcast_to', 'numpy.real', 'numpy.imag',
    'numpy.ascontiguousarray', 'numpy.asfortranarray', 'numpy.require',
    'numpy.diagonal', 'numpy.real_if_close', 'numpy.asarray_chkfinite',
    'sklearn.utils.as_float_array', 'sklearn.utils.validation.column_or_1d',
    'sklearn.utils.check_array', 'sklearn.utils.validation.check_X_y',
    'sklearn.utils.validation.check_consistent_length',
    'sklearn.utils.indexable', 'builtins.iter', 'builtins.reversed',
    'builtins.list', 'builtins.tuple', 'builtins.zip', 'builtins.enumerate',
    'numpy.nditer', 'numpy.split', 'numpy.array_split', 'numpy.hsplit',
    'numpy.vsplit', 'numpy.nan_to_num'))
VIEW_METHODS = {'ravel', 'reshape', 'squeeze', 'transpose', 'swapaxes',
                'view', 'diagonal', 'astype', '__array__', 'flat', 'items',
                'values', 'keys', 'get', 'pop', 'setdefault'}
VIEW_ATTRS = {'T', 'real', 'imag', 'flat', 'base', 'X', 'partial_labels'}
INPLACE_METHODS = {'sort', 'fill', 'itemset', 'put', 'partition', 'resize',
                   'setfield', 'setflags', 'byteswap', 'append', 'extend',
                   'insert', 'remove', 'clear', 'update', 'add', 'discard',
                   'difference_update', 'intersection_update',
                   'symmetric_difference_update', 'reverse', 'popitem',
                   '__setitem__', '__delitem__'}
INPLACE_FUNCS = {canon('numpy.fill_diagonal'): 0, canon('numpy.put'): 0,
                 canon('numpy.place'): 0, canon('numpy.putmask'): 0,
                 canon('numpy.copyto'): 0, canon('numpy.random.shuffle'): 0,
                 canon('numpy.put_along_axis'): 0}
IMM_FUNCS = set(canon(x) for x in (
    'builtins.len', 'builtins.int', 'builtins.float', 'builtins.bool',
    'builtins.str', 'builtins.min', 'builtins.max', 'builtins.abs',
    'builtins.sum', 'builtins.round', 'builtins.isinstance',
    'builtins.type', 'builtins.hasattr', 'builtins.callable', 'time.time',
    'numpy.isnan', 'numpy.linalg.norm', 'numpy.linalg.matrix_rank',
    'numpy.ceil', 'numpy.floor', 'builtins.any', 'builtins.all',
    'builtins.range'))


def roots(v):
  d = v.d if isinstance(v, V) else v
  out = d[0] if d else E
  if isinstance(v, V):
    if v.elts is not None:
      for x in v.elts:
        out = out | roots(x)
    if v.kv is not None:
      for x in v.kv.values():
        out = out | roots(x)
  return out


def kind(v):
  d = v.d if isinstance(v, V) else v
  return d[1] if d else 'unk'


_INDEX_ARRAY_FUNCS = frozenset(canon(x) for x in (
    'numpy.flatnonzero', 'numpy.argsort', 'numpy.argpartition',
    'numpy.arange', 'numpy.lexsort'))


class FreshDomain(EventsMixin, Domain):
  name = 'fresh'
  inline_depth = 12

  def __init__(self, repo, hyper_kinds=None, fitted_roots=False,
               invoke_callbacks=True):
    self._ev_init()
    self.repo = repo
    self.hyper_kinds = hyper_kinds or {}
    self.fitted_roots = fitted_roots
    self.invoke_callbacks = invoke_callbacks
    self.writes = []       # (roots, what, site, func, chain)
    self.fitted_reads = []

  # ---- payload
  def top(self, node=None):
    return UNK

  def const(self, value, node=None):
    return IMM

  def join(self, a, b):
    if a is None:
      return b
    if b is None:
      return a
    if a == b:
      return a
    k = a[1] if a[1] == b[1] else ('arr' if 'arr' in (a[1], b[1]) else 'unk')
    return (a[0] | b[0], k)

  def param(self, func, name, index):
    return (frozenset([('param', name)]), 'unk')

  def hyperparam(self, cls, name, node):
    return (frozenset([('hyper', name)]),
            self.hyper_kinds.get(name, 'unk'))

  def fitted_read(self, cls, name, node, st):
    self.fitted_reads.append((name, self.site(node)))
    if self.fitted_roots:
      return (frozenset([('fitted', name)]), 'unk')
    return UNK

  def global_read(self, module, name, node):
    return UNK

  def refined(self, v):
    # a value known to be one of a few immutable constants cannot be
    # written in place, whatever it was read from
    if v.c is not NOCONST and all(
            x is None or isinstance(x, (str, int, float, bool)) for x in v.c):
      return v.with_(d=IMM)
    return v

  # ---- expressions
  def _all_imm(self, *vals):
    return all(kind(v) == 'imm' for v in vals)

  def binop(self, op, l, r, node, st):
    if self._all_imm(l, r):
      return IMM
    if kind(l) == 'arr' or kind(r) == 'arr':
      return FRESH_ARR
    return UNK            # fresh (roots empty), scalar or array

  def unop(self, op, v, node, st):
    if isinstance(op, ast.Not):
      return IMM
    return (E, kind(v))

  def compare(self, ops, vals, node, st):
    if all(isinstance(o, (ast.Is, ast.IsNot, ast.In, ast.NotIn))
           for o in ops) or self._all_imm(*vals):
      return IMM
    if any(kind(v) == 'arr' for v in vals):
      return (E, 'arr')
    return UNK

  def boolop(self, op, vals, node, st):
    return (frozenset().union(*[roots(v) for v in vals]) if vals else E,
            'unk')

  def ifexp(self, test, a, b, node, st):
    return self.join(a.d, b.d)

  def attr(self, v, name, node, st):
    if name in ('shape', 'ndim', 'size', 'dtype', 'nit', 'success', 'message',
                '__name__', '__class__', 'n_iter_'):
      return IMM
    if name in VIEW_ATTRS:
      return (roots(v), 'arr' if name in ('T', 'real', 'imag') else 'unk')
    # attribute of a library object (lda.scalings_, pca.components_, res.x):
    # owned by that object, created by the library call
    return UNK

  def subscript(self, v, idx, node, st):
    if kind(v) == 'imm':
      return IMM
    fancy = False
    unknown = False
    for p in idx:
      if p[0] == 'expr':
        iv = p[1]
        if iv.elts is not None or kind(iv) == 'arr':
          fancy = True
        elif kind(iv) == 'imm':
          pass
        else:
          unknown = True
    if fancy:
      return FRESH_ARR
    r = roots(v)
    if not r:
      return (E, kind(v) if kind(v) != 'imm' else 'unk')
    # int / slice indexing of an array yields a view (or a scalar element)
    return (r, 'unk')

  def tuple(self, elts, node, st):
    return (frozenset().union(*[roots(x) for x in elts]) if elts else E,
            'unk')

  def dict(self, kv, node, st):
    return self.tuple(list(kv.values()), node, st)

  def fstring(self, vals, node, st):
    return IMM

  def comprehension(self, elt, iters, node, st):
    return (roots(elt), 'unk')

  def closure(self, func, node, st):
    return UNK

  def instance(self, cls, node, st):
    return UNK

  def iter_elem(self, v, node, st):
    if v.elts is not None and v.elts:
      out = None
      for x in v.elts:
        out = x if out is None else self.eng.join_v(out, x)
      return out
    if kind(v) == 'imm':
      return V(IMM)
    # iterating an array yields views of its rows
    return V((roots(v), 'unk'))

  def unpack(self, v, n, node, st):
    return [V((roots(v), 'unk')) for _ in range(n)]

  def _write(self, target, what, node, chain=None):
    r = roots(target)
    if r and kind(target) != 'imm':
      self.writes.append((r, what, self.site(node), self.cur(), node))

  def _callbacks(self, args, kwargs, node, st, eng):
    if not self.invoke_callbacks:
      return
    for v in list(args) + list(kwargs.values()):
      if v.fn is not None and v.fn[0] in ('repo', 'closure'):
        target = v.fn[1]
        n = len(target.params())
        if v.fn[0] == 'repo' and v.fn[2] is not None:
          n -= 1
        cbargs = [V(UNK) for _ in range(max(0, n))]
        func = self.cur()
        eng.call_value(v, cbargs, {}, node, st, func)

  def ext_call(self, dotted, args, kwargs, node, st, eng):
    allv = list(args) + list(kwargs.values())
    out = kwargs.get('out')
    if out is not None and not (out.c is not NOCONST and out.const() is None):
      self._write(out, 'out= of %s' % dotted, node)
      return (roots(out), 'arr')
    if dotted in INPLACE_FUNCS and args:
      self._write(args[INPLACE_FUNCS[dotted]], dotted, node)
      return IMM
    self._callbacks(args, kwargs, node, st, eng)
    if dotted in IMM_FUNCS:
      return IMM
    if dotted in VIEW_FUNCS:
      cp = kwargs.get('copy')
      if cp is not None and cp.const() is True:
        return FRESH_ARR
      r = frozenset().union(*[roots(a) for a in args]) if args else E
      if dotted == canon('sklearn.utils.validation.check_X_y') and \
              len(args) >= 2:
        return V((r, 'unk'), elts=(V((roots(args[0]), 'arr')),
                                   V((roots(args[1]), 'arr'))))
      return (r, 'arr' if dotted.startswith(('numpy', 'sklearn')) else 'unk')
    if dotted == canon('numpy.array'):
      cp = kwargs.get('copy')
      if cp is not None and cp.const() is False:
        return (roots(args[0]) if args else E, 'arr')
      return FRESH_ARR
    if dotted in _INDEX_ARRAY_FUNCS:
      # always an (integer) ARRAY: indexing with it is fancy indexing, which
      # copies - as a boolean mask does
      return FRESH_ARR
    if dotted.startswith(('numpy.', 'scipy.', 'sklearn.')):
      return (E, 'unk')
    if dotted.startswith('builtins.'):
      return UNK
    return UNK

  def method_call(self, recv, name, args, kwargs, node, st, eng):
    if name in INPLACE_METHODS:
      # a list / dict / set built in this scope (literal or comprehension):
      # changing the container does not touch the objects it holds
      if recv.ty in ('list', 'dict', 'set'):
        return IMM
      self._write(recv, 'method .%s()' % name, node)
      return IMM
    out = kwargs.get('out')
    if out is not None and not (out.c is not NOCONST and out.const() is None):
      self._write(out, 'out= of .%s()' % name, node)
    self._callbacks(args, kwargs, node, st, eng)
    if name in VIEW_METHODS:
      if name == 'astype':
        cp = kwargs.get('copy')
        if cp is None or cp.const() is not False:
          return FRESH_ARR
      return (roots(recv), 'arr' if kind(recv) == 'arr' else 'unk')
    if name in ('sum', 'mean', 'max', 'min', 'dot', 'std', 'var', 'prod',
                'any', 'all', 'argmax', 'argmin', 'trace'):
      has_axis = 'axis' in kwargs or (name != 'dot' and len(args) > 0)
      if name != 'dot' and not has_axis:
        return IMM
      return (E, 'unk')
    if name in ('copy', 'flatten', 'tolist', 'cumsum', 'round', 'clip',
                'conj', 'conjugate', 'repeat', 'take', 'nonzero', 'argsort'):
      return FRESH_ARR if kind(recv) != 'imm' else IMM
    if name in ('format', 'join', 'split', 'strip', 'lower', 'upper'):
      return IMM
    return UNK

  def value_call(self, callee, args, kwargs, node, st):
    # user callable (preprocessor): may hand back views of the user's data
    return (roots(callee) | frozenset().union(*[roots(a) for a in args])
            if args else roots(callee), 'unk')

  def unknown_call(self, node, st):
    return UNK

  # ---- effects
  def on_augassign(self, knd, target, op, val, node, st):
    if knd == 'name' or knd == 'attr':
      if kind(target) == 'imm':
        return IMM if kind(val) == 'imm' else UNK
      self._write(target, 'augmented assignment', node)
      return target.d
    if knd == 'subscript':
      return None
    return UNK

  def on_store_subscript(self, target, idx, val, node, st):
    if target.kv is not None and not roots(target):
      return
    self._write(target, 'subscript store', node)

  def on_delete(self, target, node, st):
    self._write(target, 'del subscript', node)

  def on_store_attr(self, objv, attr, val, node, st):
    EventsMixin.on_store_attr(self, objv, attr, val, node, st)
