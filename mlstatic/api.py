"""R-API: every call into numpy / scipy / scikit-learn conforms to the
signature of the callable installed in this environment (keywords exist,
not too many positionals).  Keywords carried by dict literals through
assignment, parameters and ** are followed by the engine (kv facet).
Static with respect to metric-learn: no repo code runs; library signatures
are read with inspect the way a type checker reads stubs."""
import ast
import inspect
from .tags import TagDomain, EMPTY
from .engine import Engine, V
from .model import FuncInfo, resolve_object, canon
from .rules.common import nested_functions, site

LIBS = ('numpy', 'scipy', 'sklearn')


class ApiDomain(TagDomain):
  name = 'api'
  inline_depth = 11

  def __init__(self):
    super().__init__()
    self.sites = {}

  def _record(self, dotted, npos, kwargs, node):
    f = self.cur()
    key = (f.module.relpath, node.lineno, node.col_offset, node.end_lineno,
           node.end_col_offset)
    rec = self.sites.setdefault(key, dict(
        dotted=dotted, npos=npos, kws=set(), star_unknown=False, func=f,
        node=node))
    rec['npos'] = max(rec['npos'], npos)
    for k in kwargs:
      if k == '**':
        rec['star_unknown'] = True
      else:
        rec['kws'].add(k)

  def ext_call(self, dotted, args, kwargs, node, st, eng):
    if dotted.split('.')[0] in LIBS:
      self._record(dotted, len(args), kwargs, node)
      obj = resolve_object(dotted)
      if isinstance(obj, type):
        return V(EMPTY, origin=('extinst', dotted))
    return EMPTY

  def method_call(self, recv, name, args, kwargs, node, st, eng):
    if recv.origin and recv.origin[0] == 'extinst':
      d = recv.origin[1] + '.' + name
      self._record(d, len(args) + 1, kwargs, node)
      # fluent API: est.fit(...) returns est
      if name == 'fit':
        return V(EMPTY, origin=recv.origin)
    return EMPTY


def collect(repo):
  """Run the engine over every entry point; return {site: record}."""
  dom = ApiDomain()
  entries = []
  for c in repo.estimators():
    seen = set()
    for k in repo.mro(c):
      if isinstance(k, str):
        continue
      for name in k.methods:
        if name in seen:
          continue
        seen.add(name)
        f = repo.resolve_method(c, name)
        if isinstance(f, FuncInfo) and not f.is_abstract:
          entries.append((c, f))
  for m in repo.modules.values():
    for f in m.functions.values():
      entries.append((None, f))
    for c in m.classes.values():
      for f in c.methods.values():
        if not f.is_abstract:
          entries.append((c, f))
  done = set()
  funcs = set()
  for (c, f) in entries:
    k = (c.key if c else None, f.key)
    if k in done:
      continue
    done.add(k)
    eng = Engine(repo, dom, self_cls=c)
    eng.run(f)
    funcs.add(f)
    for nf in nested_functions(f):
      eng = Engine(repo, dom, self_cls=c)
      eng.run(nf)
      funcs.add(nf)
  return dom.sites, funcs


def syntactic_lib_sites(repo):
  """All call sites whose callee resolves (at module scope) to a library
  name -- the denominator printed in the evidence."""
  out = []
  for m in repo.modules.values():
    for n in ast.walk(m.tree):
      if isinstance(n, ast.Call):
        d = repo.dotted(m, n.func)
        if d and d.split('.')[0] in LIBS:
          out.append((m.relpath, n.lineno, n.col_offset, n.end_lineno,
                      n.end_col_offset, canon(d)))
  return out


def check_site(rec):
  """-> (status, detail): status in ok / bad / nosig"""
  obj = resolve_object(rec['dotted'])
  if obj is None:
    return 'nosig', 'callee %s not importable here' % rec['dotted']
  try:
    sig = inspect.signature(obj)
  except (ValueError, TypeError):
    return 'nosig', 'no introspectable signature'
  params = sig.parameters
  has_varkw = any(p.kind == p.VAR_KEYWORD for p in params.values())
  has_varpos = any(p.kind == p.VAR_POSITIONAL for p in params.values())
  npos_max = sum(1 for p in params.values()
                 if p.kind in (p.POSITIONAL_ONLY, p.POSITIONAL_OR_KEYWORD))
  npos = rec['npos']
  if '.' in rec['dotted'] and rec.get('is_method'):
    pass
  bad_kw = sorted(k for k in rec['kws']
                  if k not in params or
                  params[k].kind == inspect.Parameter.POSITIONAL_ONLY)
  if bad_kw and not has_varkw:
    return 'bad', 'keyword(s) %s not accepted by installed %s%s' % (
        bad_kw, rec['dotted'], sig)
  if npos > npos_max and not has_varpos:
    return 'bad', '%d positional arguments, installed %s accepts %d' % (
        npos, rec['dotted'], npos_max)
  return 'ok', ''


def run_rule(repo, rep, rule='R-API'):
  rep.rule(rule, 'every explicit or dict-borne keyword (and the positional '
           'count) at each call into numpy/scipy/scikit-learn is accepted by '
           'the signature of the callable installed in this environment')
  sites, funcs = collect(repo)
  for f in funcs:
    rep.analysed(f)
  syn = syntactic_lib_sites(repo)
  n_ok = n_nosig = 0
  for key, rec in sorted(sites.items()):
    status, detail = check_site(rec)
    construct = '%s:%s->%s' % (rec['func'].key, ','.join(sorted(rec['kws'])),
                               rec['dotted'])
    if status == 'ok':
      n_ok += 1
      rep.derived(rule, construct, site(rec['func'], rec['node']),
                  sample=dict(rule=rule, site=site(rec['func'], rec['node']),
                              callee=rec['dotted'],
                              keywords=sorted(rec['kws']),
                              positional=rec['npos'])
                  if n_ok in (1, 40, 80) else None)
    elif status == 'bad':
      rep.refuted(rule, construct, site(rec['func'], rec['node']), detail)
    else:
      n_nosig += 1
  reached = set(sites)
  unreached = [s for s in syn if s[:5] not in reached]
  rep.notes['api_sites_checked'] = len(sites)
  rep.notes['api_sites_without_signature'] = n_nosig
  rep.notes['api_syntactic_library_calls'] = len(syn)
  rep.notes['api_sites_not_reached(dead or guarded)'] = [
      '%s:%d %s' % (s[0], s[1], s[5]) for s in unreached][:40]
  rep.floor('library call sites checked against installed signatures',
            n_ok, 250)
  return sites
