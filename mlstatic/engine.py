"""Structured abstract interpreter over the Python AST of repo functions.

Python has no goto, so a recursive interpreter over statements is equivalent
to a worklist over the statement CFG: `if` joins (or forks, in fork mode) at
the merge, loops iterate to a fixpoint of the head state, `try` feeds the join
of all intermediate body states into the handlers, `return/raise/break/
continue` are collected as abrupt exits.  Repo-internal calls are analysed by
inlining (bounded depth, recursion guard), methods are resolved through the
C3 MRO of the concrete estimator under analysis.

A Domain supplies the abstract values; the engine supplies control flow,
constant / type-tag facts used to prune infeasible branches (path conditions)
and the heap of object attributes (self.x).
"""
import ast
from .model import FuncInfo, ClassInfo, canon, AnalysisError

NOCONST = ('noconst',)


class V:
  """Abstract value: domain payload + facets used by the engine itself."""
  __slots__ = ('d', 'c', 'ty', 'obj', 'fn', 'elts', 'kv', 'origin', 'nc')

  def __init__(self, d=None, c=NOCONST, ty=None, obj=None, fn=None,
               elts=None, kv=None, origin=None, nc=frozenset()):
    self.d = d          # domain payload
    self.c = c          # NOCONST | frozenset of possible python constants
    self.ty = ty        # None | 'ndarray' | 'str' | 'none' | ('not', tags)
    self.obj = obj      # Obj for instances of repo classes
    self.fn = fn        # ('repo', FuncInfo, selfV) | ('closure', FuncInfo, env)
                        # | ('ext', dotted) | ('class', ClassInfo) | ('lambda', node, env)
    self.elts = elts    # tuple of V for tuple / list literals
    self.kv = kv        # dict str->V for dict literals with constant keys
    self.origin = origin  # free-form provenance (name of param, ...)
    self.nc = nc        # constants the value is known NOT to equal

  def const(self):
    """The single known constant, else NOCONST."""
    if self.c is not NOCONST and len(self.c) == 1:
      return next(iter(self.c))
    return NOCONST

  def with_(self, **kw):
    n = V(self.d, self.c, self.ty, self.obj, self.fn, self.elts, self.kv,
          self.origin, self.nc)
    for k, v in kw.items():
      setattr(n, k, v)
    return n

  def __repr__(self):
    bits = [repr(self.d)]
    if self.c is not NOCONST:
      bits.append('c=%s' % sorted(map(repr, self.c)))
    if self.ty:
      bits.append('ty=%s' % (self.ty,))
    if self.obj:
      bits.append('obj=%s' % self.obj.cls.name)
    if self.fn:
      bits.append('fn=%s' % (self.fn[0],))
    if self.elts is not None:
      bits.append('elts=%d' % len(self.elts))
    return 'V(' + ', '.join(bits) + ')'


class Obj:
  __slots__ = ('cls', 'oid')

  def __init__(self, cls, oid):
    self.cls = cls
    self.oid = oid


class State:
  __slots__ = ('vars', 'aux')

  def __init__(self, vars=None, aux=None):
    self.vars = vars if vars is not None else {}
    self.aux = aux

  def copy(self):
    return State(dict(self.vars), self.aux)


class Flow:
  """Outcome of executing a block: states per exit kind."""
  __slots__ = ('normal', 'returns', 'raises', 'breaks', 'continues')

  def __init__(self):
    self.normal = []      # list[State]
    self.returns = []     # list[(V, State, node)]
    self.raises = []      # list[(excnames tuple, State, node)]
    self.breaks = []
    self.continues = []


class Domain:
  """Default domain: every payload is None (top). Subclass and override."""
  name = 'base'
  fork = False            # fork at `if` instead of joining (loop-free code)
  max_states = 48
  inline_depth = 12
  assume_loops_execute = False
  assume_finite_lt_inf = False

  # -- payload constructors
  def top(self, node=None):
    return None

  def const(self, value, node=None):
    return self.top(node)

  def join(self, a, b):
    return a if a == b else self.top()

  def param(self, func, name, index):
    return self.top()

  def self_param(self, func, cls):
    return self.top()

  def hyperparam(self, cls, name, node):
    return self.top(node)

  def fitted_read(self, cls, name, node, st):
    """self.<name> read while absent from the state."""
    return self.top(node)

  def global_read(self, module, name, node):
    return self.top(node)

  def maybe_unassigned_read(self, cls, name, node, st):
    pass

  def maybe_unbound_read(self, name, node, st):
    pass

  def array_str_compare(self, key, const, node, st):
    pass

  def refined(self, v):
    """A value whose constant facet was narrowed by a branch test."""
    return v

  def unbound_name(self, name, node, st):
    return self.top(node)

  # -- expressions
  def binop(self, op, l, r, node, st):
    return self.top(node)

  def unop(self, op, v, node, st):
    return self.top(node)

  def compare(self, ops, vals, node, st):
    return self.top(node)

  def boolop(self, op, vals, node, st):
    return self.top(node)

  def ifexp(self, test, a, b, node, st):
    return self.join(a.d, b.d)

  def attr(self, v, name, node, st):
    return self.top(node)

  def subscript(self, v, idx, node, st):
    return self.top(node)

  def tuple(self, elts, node, st):
    return self.top(node)

  def list(self, elts, node, st):
    return self.tuple(elts, node, st)

  def dict(self, kv, node, st):
    return self.top(node)

  def fstring(self, vals, node, st):
    return self.top(node)

  def comprehension(self, elt, iters, node, st):
    return self.top(node)

  def closure(self, func, node, st):
    return self.top(node)

  def instance(self, cls, node, st):
    return self.top(node)

  def ext_call(self, dotted, args, kwargs, node, st, eng):
    """Call of a library callable. Return payload or V."""
    return self.top(node)

  def method_call(self, recv, name, args, kwargs, node, st, eng):
    """Call of a method on a non-repo value. Return payload or V."""
    return self.top(node)

  def unknown_call(self, node, st):
    return self.top(node)

  def value_call(self, callee, args, kwargs, node, st):
    """Call through a value that is not a resolved function (e.g. the
    user's preprocessor)."""
    return self.unknown_call(node, st)

  def call_result(self, func, ret, node, st):
    """Hook: value returned by an inlined repo call."""
    return ret

  def summary(self, target, args, kwargs, node, st):
    """Return a V / payload to use instead of inlining `target`."""
    return None

  def iter_elem(self, v, node, st):
    return V(self.top(node))

  def unpack(self, v, n, node, st):
    return [V(self.top(node)) for _ in range(n)]

  # -- effects
  def on_assign_name(self, name, val, node, st):
    pass

  def on_store_attr(self, objv, attr, val, node, st):
    pass

  def on_store_subscript(self, target, idx, val, node, st):
    pass

  def on_augassign(self, kind, target, op, val, node, st):
    """kind: 'name' | 'attr' | 'subscript'. Return new payload for name/attr
    targets."""
    return self.top(node)

  def on_delete(self, target, node, st):
    pass

  def on_raise(self, excnames, node, st):
    pass

  def on_return(self, val, node, st):
    pass

  def on_stmt(self, stmt, st):
    pass

  def on_call(self, kind, target, args, kwargs, node, st):
    """Observation hook for every call (before evaluation of the callee)."""
    pass

  def on_enter(self, func, st):
    pass

  def on_exit(self, func, st):
    pass

  def on_branch(self, test, val, taken, node, st):
    pass

  def truth(self, v):
    """Domain-level truth value (True/False/None) when consts do not decide."""
    return None

  def loop_may_skip(self, node, itv, st):
    return not self.assume_loops_execute

  # -- auxiliary per-state component
  def aux_init(self):
    return None

  def aux_join(self, a, b):
    return a if a == b else None

  def aux_copy(self, a):
    return a


# numpy constructors: the result is an ndarray (never None, never a string)
ARRAY_MAKERS = frozenset(canon('numpy.' + n) for n in (
    'zeros', 'ones', 'empty', 'full', 'eye', 'identity', 'zeros_like',
    'ones_like', 'empty_like', 'full_like', 'arange', 'linspace', 'vstack',
    'hstack', 'concatenate', 'stack', 'column_stack', 'outer', 'diag',
    'atleast_2d', 'atleast_1d', 'asarray', 'array', 'asanyarray'))


def _hashable(k):
  try:
    hash(k)
    return True
  except TypeError:
    return False


def is_heap(k):
  return isinstance(k, tuple) and not k[0].startswith(('@', '?'))


def _join_c(a, b):
  if a is NOCONST or b is NOCONST:
    return NOCONST
  u = a | b
  return u if len(u) <= 12 else NOCONST


def _members(v):
  """the constants a membership test `x in v` ranges over: elements of a
  literal tuple / list / set of constants, keys of a literal dict"""
  if v.elts is not None and all(x.const() is not NOCONST for x in v.elts):
    return set(x.const() for x in v.elts)
  if v.kv is not None and v.ty == 'dict' and v.elts is None:
    return set(v.kv)
  return None


def _join_fn(a, b):
  """one of finitely many known callables (a dispatch table of functions)"""
  if a is None or b is None:
    return None
  alts = []
  for f in (a, b):
    for g in (f[1] if f[0] == 'multi' else (f,)):
      if g[0] not in ('repo', 'closure', 'lambda', 'ext', 'class'):
        return None
      if not any(g is h or (g[0] == h[0] and g[1] is h[1]) for h in alts):
        alts.append(g)
  if len(alts) == 1:
    return alts[0]
  return ('multi', tuple(alts)) if len(alts) <= 6 else None


def _join_ty(a, b):
  if a == b:
    return a
  return None


class Engine:
  def __init__(self, repo, domain, self_cls=None):
    self.repo = repo
    self.dom = domain
    domain.eng = self
    self.self_cls = self_cls
    self.stack = []
    self.unsupported = []     # (func, node, what)
    self.calls_resolved = 0
    self.calls_unresolved = []
    self._oid = 0
    self._btests = {}
    self.trace = []

  # ------------------------------------------------------------------ join
  def _class_scope(self, k):
    """names visible to a class-level expression: the functions defined in
    the class body (plain functions there, e.g. entries of a dispatch table)"""
    return dict((nm, V(None, fn=('repo', m, None)))
                for nm, m in k.methods.items() if isinstance(m, FuncInfo))

  def _elem_consts(self, ev, itv):
    """the element of a literal tuple / list of constants is one of them"""
    if isinstance(ev, V) and ev.c is NOCONST and itv.elts and \
            all(x.c is not NOCONST for x in itv.elts):
      u = frozenset().union(*[x.c for x in itv.elts])
      if 0 < len(u) <= 12:
        return ev.with_(c=u)
    return ev

  def join_v(self, a, b):
    if a is b:
      return a
    if a is None:
      return b
    if b is None:
      return a
    d = self.dom.join(a.d, b.d)
    elts = None
    if a.elts is not None and b.elts is not None and \
            len(a.elts) == len(b.elts):
      elts = tuple(self.join_v(x, y) for x, y in zip(a.elts, b.elts))
    kv = None
    if a.kv is not None and b.kv is not None and set(a.kv) == set(b.kv):
      kv = {k: self.join_v(a.kv[k], b.kv[k]) for k in a.kv}
    obj = a.obj if (a.obj is not None and b.obj is not None and
                    a.obj.oid == b.obj.oid) else None
    fn = a.fn if a.fn == b.fn else _join_fn(a.fn, b.fn)
    jc = _join_c(a.c, b.c)
    # x != k survives a join when each side either knows it or has a constant
    # set that excludes k
    nc = frozenset(
        k for k in (a.nc | b.nc)
        if (k in a.nc or (a.c is not NOCONST and k not in a.c)) and
        (k in b.nc or (b.c is not NOCONST and k not in b.c)))
    return V(d, jc, _join_ty(a.ty, b.ty), obj, fn, elts, kv,
             a.origin if a.origin == b.origin else None, nc)

  def join_states(self, states):
    states = [s for s in states if s is not None]
    if not states:
      return None
    if len(states) == 1:
      return states[0]
    out = State({}, states[0].aux)
    keys = set(states[0].vars)
    for s in states[1:]:
      keys &= set(s.vars)
      out.aux = self.dom.aux_join(out.aux, s.aux)
    allkeys = set()
    for s in states:
      allkeys |= set(s.vars)
    # a boolean temporary keeps its meaning only if every path defines it
    # by the same test
    allkeys = set(k for k in allkeys if not (isinstance(k, tuple) and
                                              k[0] == '@btest') or k in keys)
    for k in keys:
      v = states[0].vars[k]
      if v is True:
        out.vars[k] = True
        continue
      for s in states[1:]:
        v = self.join_v(v, s.vars[k])
      out.vars[k] = v
    # variables bound on some paths only: keep, flagged maybe-unbound
    for k in allkeys - keys:
      vs = [s.vars[k] for s in states if k in s.vars]
      v = vs[0]
      for w in vs[1:]:
        v = self.join_v(v, w)
      out.vars[k] = v
      out.vars[('?unbound', k)] = True
    for s in states:
      for k, v in s.vars.items():
        if isinstance(k, tuple) and k[0] == '?unbound':
          out.vars[k] = True
    return out

  def _merge(self, states):
    """Post-merge list of states according to the domain's mode."""
    states = [s for s in states if s is not None]
    if self.dom.fork and len(states) > 1:
      uniq = []
      for s in states:
        if not any(self.states_equal(s, u) for u in uniq):
          uniq.append(s)
      states = uniq
    if self.dom.fork and len(states) <= self.dom.max_states:
      return states
    j = self.join_states(states)
    return [j] if j is not None else []

  def states_equal(self, a, b):
    if a is None or b is None:
      return a is b
    if set(a.vars) != set(b.vars) or a.aux != b.aux:
      return False
    for k, v in a.vars.items():
      w = b.vars[k]
      if v is w:
        continue
      if v is True or w is True:
        if v is not w:
          return False
        continue
      if v.d != w.d or v.c != w.c or v.ty != w.ty or v.nc != w.nc:
        return False
    return True

  # -------------------------------------------------------------- entry
  def new_oid(self, hint):
    self._oid += 1
    return '%s#%d' % (hint, self._oid)

  def make_self(self, cls, func=None):
    return V(self.dom.self_param(func, cls), obj=Obj(cls, 'self'),
             ty='instance')

  def run(self, func, args=None, kwargs=None, state=None, self_v=None,
          facts=None):
    """Analyse `func` as an entry point.  Returns Flow."""
    st = state if state is not None else State({}, self.dom.aux_init())
    params = func.params()
    a = func.node.args
    argvals = {}
    i0 = 0
    if func.cls is not None and not func.is_static:
      cls = self.self_cls or func.cls
      sv = self_v if self_v is not None else self.make_self(cls, func)
      argvals[params[0]] = sv
      i0 = 1
    args = args or {}
    for i, p in enumerate(params[i0:]):
      if p in args:
        argvals[p] = args[p]
      else:
        argvals[p] = V(self.dom.param(func, p, i), origin=('param', p))
    for p in a.kwonlyargs:
      argvals[p.arg] = args.get(p.arg, V(self.dom.param(func, p.arg, -1),
                                         origin=('param', p.arg)))
    if a.vararg:
      argvals[a.vararg.arg] = V(self.dom.top())
    if a.kwarg:
      argvals[a.kwarg.arg] = args.get(a.kwarg.arg, V(self.dom.top(), kv={}))
    if facts:
      argvals.update(facts)
    return self._run_body(func, argvals, st)

  def _run_body(self, func, argvals, st, closure_env=None):
    callee = State({k: v for k, v in st.vars.items() if is_heap(k)},
                   st.aux)
    if closure_env:
      for k, v in closure_env.items():
        if not isinstance(k, tuple):
          callee.vars.setdefault(k, v)
    callee.vars.update(argvals)
    self.stack.append(func)
    try:
      self.dom.on_enter(func, callee)
      flow = self.exec_block(func.node.body, [callee], func)
      # falling off the end returns None
      for s in flow.normal:
        v = V(self.dom.const(None), c=frozenset([None]), ty='none')
        flow.returns.append((v, s, func.node))
      flow.normal = []
      for (_, s, _) in flow.returns:
        self.dom.on_exit(func, s)
    finally:
      self.stack.pop()
    return flow

  # ---------------------------------------------------------- statements
  def exec_block(self, stmts, states, func):
    flow = Flow()
    cur = list(states)
    for stmt in stmts:
      if not cur:
        break
      nxt = []
      for st in cur:
        f = self.exec_stmt(stmt, st, func)
        nxt.extend(f.normal)
        flow.returns.extend(f.returns)
        flow.raises.extend(f.raises)
        flow.breaks.extend(f.breaks)
        flow.continues.extend(f.continues)
      cur = self._merge(nxt) if len(nxt) > 1 else nxt
    flow.normal = cur
    return flow

  def exec_stmt(self, stmt, st, func):
    self.dom.on_stmt(stmt, st)
    self._pending_raises = []
    self._dead = False
    m = getattr(self, 'st_' + type(stmt).__name__, None)
    if m is None:
      self.unsupported.append((func, stmt, type(stmt).__name__))
      f = Flow()
      f.normal = [st]
      return f
    f = m(stmt, st, func)
    return f

  def _finish(self, st, flow=None):
    """Build the Flow of a simple statement: normal continuation unless an
    inlined callee never returns; plus raises collected from callees."""
    f = flow or Flow()
    if not self._dead:
      f.normal.append(st)
    f.raises.extend(self._pending_raises)
    self._pending_raises = []
    self._dead = False
    return f

  def st_Pass(self, stmt, st, func):
    return self._finish(st)

  def st_Import(self, stmt, st, func):
    return self._finish(st)

  st_ImportFrom = st_Import
  st_Global = st_Import
  st_Nonlocal = st_Import

  def st_Expr(self, stmt, st, func):
    if isinstance(stmt.value, ast.Constant):
      return self._finish(st)
    # a library call used for its effect on `out=<name>`: the result is the
    # new value of that name (np.divide(1, w, where=m, out=w) as a statement)
    call = stmt.value
    out_t = None
    if isinstance(call, ast.Call) and self.repo.dotted(func.module,
                                                       call.func):
      for k in call.keywords:
        if k.arg == 'out' and isinstance(k.value, ast.Name):
          out_t = k.value
    if out_t is not None and not (
            self.repo.func_by_dotted(self.repo.dotted(func.module,
                                                      call.func) or '')):
      v = self.eval(call, st, func)
      if not self._dead:
        self.assign(out_t, v, st, func, stmt)
      return self._finish(st)
    if self.dom.fork and isinstance(stmt.value, ast.Call):
      return self._forking_call(stmt.value, st, func, lambda v, s: None)
    self.eval(stmt.value, st, func)
    return self._finish(st)

  def _forking_call(self, call, st, func, bind):
    """In fork mode a statement whose value is a repo call forks over the
    callee's return states."""
    res = self.eval_call(call, st, func, want_flow=True)
    f = Flow()
    if isinstance(res, tuple) and res and res[0] == 'flow':
      for (v, s, _) in res[1]:
        ns = State(dict(st.vars), s.aux)
        for k, val in s.vars.items():
          if isinstance(k, tuple) and k and k[0] == '@wb':
            # an argument array the callee updated in place (exact per path)
            if k[1] in ns.vars:
              ns.vars[k[1]] = val
          elif is_heap(k):
            ns.vars[k] = val
        bind(v, ns)
        f.normal.append(ns)
      f.raises.extend(self._pending_raises)
      self._pending_raises = []
      self._dead = False
      f.normal = self._merge(f.normal) if len(f.normal) > \
          self.dom.max_states else f.normal
      return f
    bind(res, st)
    return self._finish(st)

  def st_Assign(self, stmt, st, func):
    if self.dom.fork and isinstance(stmt.value, ast.Call) and \
            len(stmt.targets) == 1:
      return self._forking_call(
          stmt.value, st, func,
          lambda v, s: self.assign(stmt.targets[0], v, s, func, stmt))
    v = self.eval(stmt.value, st, func)
    if self._dead:
      return self._finish(st)
    for t in stmt.targets:
      self.assign(t, v, st, func, stmt)
    return self._finish(st)

  def st_AnnAssign(self, stmt, st, func):
    if stmt.value is not None:
      v = self.eval(stmt.value, st, func)
      self.assign(stmt.target, v, st, func, stmt)
    return self._finish(st)

  def st_AugAssign(self, stmt, st, func):
    val = self.eval(stmt.value, st, func)
    t = stmt.target
    if isinstance(t, ast.Name):
      cur = self.load_name(t.id, t, st, func)
      d = self.dom.on_augassign('name', cur, stmt.op, val, stmt, st)
      nv = d if isinstance(d, V) else V(d)
      st.vars[t.id] = nv
    elif isinstance(t, ast.Attribute):
      objv = self.eval(t.value, st, func)
      cur = self.load_attr(objv, t.attr, t, st, func)
      d = self.dom.on_augassign('attr', cur, stmt.op, val, stmt, st)
      nv = d if isinstance(d, V) else V(d)
      if objv.obj is not None:
        st.vars[(objv.obj.oid, t.attr)] = nv
    elif isinstance(t, ast.Subscript):
      base = self.eval(t.value, st, func)
      idx = self.eval_index(t.slice, st, func)
      self.dom.on_augassign('subscript', base, stmt.op, val, stmt, st)
      r = self.dom.on_store_subscript(base, idx, val, stmt, st)
      if r is not None and isinstance(t.value, ast.Name):
        st.vars[t.value.id] = base.with_(d=r)
      elif r is not None and isinstance(t.value, ast.Attribute):
        ov = self.eval(t.value.value, st, func)
        if ov.obj is not None:
          st.vars[(ov.obj.oid, t.value.attr)] = base.with_(d=r)
    return self._finish(st)

  def st_Delete(self, stmt, st, func):
    for t in stmt.targets:
      if isinstance(t, ast.Subscript):
        base = self.eval(t.value, st, func)
        self.dom.on_delete(base, stmt, st)
      elif isinstance(t, ast.Name):
        st.vars.pop(t.id, None)
    return self._finish(st)

  def st_Return(self, stmt, st, func):
    f = Flow()
    if stmt.value is None:
      v = V(self.dom.const(None), c=frozenset([None]), ty='none')
    elif self.dom.fork and isinstance(stmt.value, ast.Call):
      res = self.eval_call(stmt.value, st, func, want_flow=True)
      if isinstance(res, tuple) and res and res[0] == 'flow':
        for (v, s, _) in res[1]:
          ns = State(dict(st.vars), s.aux)
          for k, val in s.vars.items():
            if is_heap(k):
              ns.vars[k] = val
          self.dom.on_return(v, stmt, ns)
          f.returns.append((v, ns, stmt))
        f.raises.extend(self._pending_raises)
        self._pending_raises = []
        self._dead = False
        return f
      v = res
    else:
      v = self.eval(stmt.value, st, func)
    if not self._dead:
      self.dom.on_return(v, stmt, st)
      f.returns.append((v, st, stmt))
    f.raises.extend(self._pending_raises)
    self._pending_raises = []
    self._dead = False
    return f

  def st_Raise(self, stmt, st, func):
    f = Flow()
    names = ('<reraise>',)
    if stmt.exc is not None:
      names = tuple(self.repo.exception_bases(func.module, stmt.exc))
      if isinstance(stmt.exc, ast.Call):
        for a in stmt.exc.args:
          self.eval(a, st, func)
      elif isinstance(stmt.exc, ast.Name) and stmt.exc.id in st.vars:
        names = ('<var:%s>' % stmt.exc.id,)
    self.dom.on_raise(names, stmt, st)
    f.raises.append((names, st, stmt))
    f.raises.extend(self._pending_raises)
    self._pending_raises = []
    self._dead = False
    return f

  def st_Assert(self, stmt, st, func):
    val = self.eval(stmt.test, st, func)
    t = self.truth(val)
    f = Flow()
    if t is not True:
      fs = st.copy()
      f.raises.append((('AssertionError', 'Exception'), fs, stmt))
    if t is not False:
      self.refine(stmt.test, True, st, func)
      return self._finish(st, f)
    self._dead = False
    f.raises.extend(self._pending_raises)
    self._pending_raises = []
    return f

  def st_Break(self, stmt, st, func):
    f = Flow()
    f.breaks.append(st)
    return f

  def st_Continue(self, stmt, st, func):
    f = Flow()
    f.continues.append(st)
    return f

  def st_FunctionDef(self, stmt, st, func):
    fi = FuncInfo(func.module, stmt.name, stmt, cls=None, parent=func)
    env = dict(st.vars)
    v = V(None, fn=('closure', fi, env))
    v.d = self.dom.closure(v, stmt, st)
    st.vars[stmt.name] = v
    return self._finish(st)

  def st_If(self, stmt, st, func):
    val = self.eval(stmt.test, st, func)
    pend = self._pending_raises
    dead = self._dead
    self._pending_raises = []
    self._dead = False
    f = Flow()
    f.raises.extend(pend)
    if dead:
      return f
    t = self.truth(val)
    outs = []
    for taken, body in ((True, stmt.body), (False, stmt.orelse)):
      if t is not None and t != taken:
        continue
      s = st.copy() if t is None else st
      s.aux = self.dom.aux_copy(s.aux)
      if not self.refine(stmt.test, taken, s, func):
        continue
      self.dom.on_branch(stmt.test, val, taken, stmt, s)
      bf = self.exec_block(body, [s], func)
      outs.extend(bf.normal)
      f.returns.extend(bf.returns)
      f.raises.extend(bf.raises)
      f.breaks.extend(bf.breaks)
      f.continues.extend(bf.continues)
    f.normal = self._merge(outs)
    return f

  def _loop(self, stmt, st, func, is_for):
    f = Flow()
    if is_for:
      itv = self.eval(stmt.iter, st, func)
      f.raises.extend(self._pending_raises)
      self._pending_raises = []
      if self._dead:
        self._dead = False
        return f
      may_skip = self.dom.loop_may_skip(stmt, itv, st)
      if itv.elts is not None and len(itv.elts) > 0:
        may_skip = False
      if itv.elts is not None and 0 < len(itv.elts) <= 16 and \
              itv.ty != 'set' and not stmt.orelse and \
              all(isinstance(x, V) for x in itv.elts) and \
              any(x.elts is not None or x.fn is not None or
                  x.c is not NOCONST for x in itv.elts) and \
              getattr(self, '_unroll_depth', 0) < 2:
        # a loop over a literal tuple / list / dict.items() of known entries
        # is executed entry by entry (exact: `for name, value in (('a', a),
        # ('b', b)): setattr(self, name, value)`)
        self._unroll_depth = getattr(self, '_unroll_depth', 0) + 1
        try:
          cur = [st]
          for x in itv.elts:
            if not cur:
              break
            s = self.join_states([c.copy() for c in cur]) if len(cur) > 1 \
                else cur[0].copy()
            s.aux = self.dom.aux_copy(s.aux)
            self.assign(stmt.target, x, s, func, stmt)
            bf = self.exec_block(stmt.body, [s], func)
            f.returns.extend(bf.returns)
            f.raises.extend(bf.raises)
            f.breaks.extend(bf.breaks)
            cur = bf.normal + bf.continues
          out = list(cur) + list(f.breaks)
          f.breaks = []
          f.normal = self._merge(out)
          return f
        finally:
          self._unroll_depth -= 1
    def one_pass(head, first):
      """one iteration from `head`: (states leaving the loop without
      entering the body, flow of the body)"""
      s = head.copy()
      s.aux = self.dom.aux_copy(s.aux)
      if is_for:
        ev = self._elem_consts(self.dom.iter_elem(itv, stmt, s), itv)
        # `for i in range(n)` / `range(0, n)`: i is 0 in the (peeled) first
        # iteration and non-zero afterwards
        it_ = stmt.iter
        if isinstance(ev, V) and ev.c is NOCONST and \
                isinstance(it_, ast.Call) and \
                isinstance(it_.func, ast.Name) and it_.func.id == 'range' \
                and 'range' not in s.vars and not it_.keywords and (
                    len(it_.args) == 1 or (
                        len(it_.args) == 2 and
                        isinstance(it_.args[0], ast.Constant) and
                        it_.args[0].value == 0)):
          ev = ev.with_(c=frozenset([0])) if first else \
              ev.with_(nc=ev.nc | {0})
        self.assign(stmt.target, ev, s, func, stmt)
        entered = [s]
        exit_now = [head.copy()] if (may_skip or not first) else []
      else:
        val = self.eval(stmt.test, s, func)
        t = self.truth(val)
        entered = []
        exit_now = []
        if t is not False:
          s2 = s.copy()
          if self.refine(stmt.test, True, s2, func):
            entered = [s2]
        if t is not True:
          s3 = s.copy()
          if self.refine(stmt.test, False, s3, func):
            exit_now = [s3]
        if first and not self.dom.loop_may_skip(stmt, None, st):
          exit_now = []       # the domain knows the body runs at least once
      bf_ = self.exec_block(stmt.body, entered, func) if entered else Flow()
      return exit_now, bf_

    # the first iteration is analysed from the entry state alone (loop
    # peeling): what holds only before the loop (a local still unbound, a
    # bound still +inf) is not mixed into the later iterations
    exit0, bf0 = one_pass(st, True)
    flows = [bf0]
    exits_all = list(exit0)
    back0 = bf0.normal + bf0.continues
    last_back = list(back0)
    if back0:
      head = self.join_states([x.copy() for x in back0])
      bf = Flow()
      exit_i = []
      for iteration in range(12):
        exit_i, bf = one_pass(head, False)
        back = bf.normal + bf.continues
        new_head = self.join_states([head] + back)
        if self.states_equal(new_head, head):
          break
        head = new_head
        if iteration >= 8:
          # widen: drop facts that keep changing
          for k, v in list(head.vars.items()):
            if isinstance(v, V):
              head.vars[k] = v.with_(c=NOCONST)
      flows.append(bf)
      exits_all.extend(exit_i)
      last_back = list(back0) + list(bf.normal + bf.continues)
    for fl in flows:
      f.returns.extend(fl.returns)
      f.raises.extend(fl.raises)
    if is_for:
      normal_exit = []
      if may_skip:
        normal_exit.append(st.copy())
      normal_exit.extend(s.copy() for s in last_back)
    else:
      normal_exit = exits_all
    bf = Flow()
    for fl in flows:
      bf.breaks.extend(fl.breaks)
    if stmt.orelse and normal_exit:
      ef = self.exec_block(stmt.orelse, self._merge(normal_exit), func)
      normal_exit = ef.normal
      f.returns.extend(ef.returns)
      f.raises.extend(ef.raises)
      f.breaks.extend(ef.breaks)
      f.continues.extend(ef.continues)
    f.normal = self._merge(list(normal_exit) + list(bf.breaks))
    return f

  def st_For(self, stmt, st, func):
    if self.dom.fork:
      pass
    return self._loop(stmt, st, func, True)

  def st_While(self, stmt, st, func):
    return self._loop(stmt, st, func, False)

  def st_With(self, stmt, st, func):
    for item in stmt.items:
      v = self.eval(item.context_expr, st, func)
      if item.optional_vars is not None:
        self.assign(item.optional_vars, v, st, func, stmt)
    f0 = self._finish(st)
    bf = self.exec_block(stmt.body, f0.normal, func)
    bf.raises.extend(f0.raises)
    return bf

  def st_Try(self, stmt, st, func):
    f = Flow()
    # run the body statement by statement, remembering intermediate states
    inter = [st.copy()]
    cur = [st]
    body_raises = []
    for s_ in stmt.body:
      if not cur:
        break
      nxt = []
      for s in cur:
        sf = self.exec_stmt(s_, s, func)
        nxt.extend(sf.normal)
        f.returns.extend(sf.returns)
        f.breaks.extend(sf.breaks)
        f.continues.extend(sf.continues)
        body_raises.extend(sf.raises)
      cur = self._merge(nxt) if len(nxt) > 1 else nxt
      inter.extend(x.copy() for x in cur)
    normal = cur
    if stmt.orelse and normal:
      ef = self.exec_block(stmt.orelse, normal, func)
      normal = ef.normal
      f.returns.extend(ef.returns)
      f.raises.extend(ef.raises)
      f.breaks.extend(ef.breaks)
      f.continues.extend(ef.continues)
    handled_all = False
    hstate = self.join_states(inter + [s for (_, s, _) in body_raises])
    for h in stmt.handlers:
      hs = hstate.copy()
      hs.aux = self.dom.aux_copy(hs.aux)
      if h.type is None:
        caught = None
      else:
        types = h.type.elts if isinstance(h.type, ast.Tuple) else [h.type]
        caught = set()
        for t in types:
          caught.add(self.repo.exception_bases(func.module, t)[0])
      if caught is None or 'Exception' in caught or 'BaseException' in caught:
        handled_all = True
      if h.name:
        hs.vars[h.name] = V(self.dom.top(h), origin=('exc', h.name),
                           ty='instance')
      hf = self.exec_block(h.body, [hs], func)
      normal = list(normal) + hf.normal
      f.returns.extend(hf.returns)
      for (names, s, n) in hf.raises:
        if names == ('<reraise>',):
          names = tuple(sorted(caught)) if caught else ('Exception',)
        f.raises.append((names, s, n))
      f.breaks.extend(hf.breaks)
      f.continues.extend(hf.continues)
      # explicit raises in the body that this handler catches are absorbed
      keep = []
      for (names, s, n) in body_raises:
        if caught is None or (set(names) & caught):
          continue
        keep.append((names, s, n))
      body_raises = keep
    f.raises.extend(body_raises)
    normal = self._merge(normal)
    if stmt.finalbody:
      ff = self.exec_block(stmt.finalbody, normal, func)
      normal = ff.normal
      f.returns.extend(ff.returns)
      f.raises.extend(ff.raises)
    f.normal = normal
    return f

  # ----------------------------------------------------------- assignment
  def assign(self, target, v, st, func, stmt):
    if isinstance(target, ast.Name):
      st.vars[target.id] = v
      st.vars.pop(('?unbound', target.id), None)
      for k in [k for k in st.vars if isinstance(k, tuple) and
                k[0] == '@attr' and k[1] == target.id]:
        del st.vars[k]
      for k in [k for k in st.vars if isinstance(k, tuple) and
                k[0] == '@btest' and (k[1] == target.id or
                                      target.id in self._btests[k[2]][1])]:
        del st.vars[k]
      if isinstance(stmt, ast.Assign) and stmt.targets == [target] and \
              self._is_test_expr(stmt.value):
        deps = frozenset(x.id for x in ast.walk(stmt.value)
                         if isinstance(x, ast.Name))
        if target.id not in deps:
          self._btests[id(stmt.value)] = (stmt.value, deps)
          st.vars[('@btest', target.id, id(stmt.value))] = True
      self.dom.on_assign_name(target.id, v, stmt, st)
    elif isinstance(target, (ast.Tuple, ast.List)):
      n = len(target.elts)
      star = [i for i, e in enumerate(target.elts)
              if isinstance(e, ast.Starred)]
      if v.elts is not None and len(v.elts) == n and not star:
        parts = list(v.elts)
      elif star and v.elts is not None and len(v.elts) >= n - 1:
        i = star[0]
        after = n - 1 - i
        mid = v.elts[i:len(v.elts) - after]
        sv = V(None, elts=tuple(mid))
        sv.d = self.dom.tuple(list(mid), stmt, st)
        parts = list(v.elts[:i]) + [sv] + \
            (list(v.elts[len(v.elts) - after:]) if after else [])
      elif star:
        base = self.dom.unpack(v, n, stmt, st)
        parts = base
      else:
        parts = self.dom.unpack(v, n, stmt, st)
      for t, p in zip(target.elts, parts):
        if isinstance(t, ast.Starred):
          t = t.value
        self.assign(t, p, st, func, stmt)
    elif isinstance(target, ast.Attribute):
      objv = self.eval(target.value, st, func)
      self.dom.on_store_attr(objv, target.attr, v, stmt, st)
      if objv.obj is not None:
        st.vars[(objv.obj.oid, target.attr)] = v
    elif isinstance(target, ast.Subscript):
      base = self.eval(target.value, st, func)
      idx = self.eval_index(target.slice, st, func)
      # dict literal with constant key: strong update of the kv facet
      k = idx[0][1].const() if (len(idx) == 1 and idx[0][0] == 'expr') \
          else NOCONST
      if base.kv is not None and isinstance(k, str) and \
              isinstance(target.value, ast.Name):
        nkv = dict(base.kv)
        nkv[k] = v
        st.vars[target.value.id] = base.with_(kv=nkv)
      elif base.kv is not None and isinstance(target.value, ast.Name):
        st.vars[target.value.id] = base.with_(kv=None)
      r = self.dom.on_store_subscript(base, idx, v, stmt, st)
      if r is not None and isinstance(target.value, ast.Name):
        # weak update of the content abstraction of a local array (keeping
        # the dict facet updated just above)
        cur = st.vars.get(target.value.id)
        cur = cur if isinstance(cur, V) else base
        st.vars[target.value.id] = cur.with_(d=r)
      elif r is not None and isinstance(target.value, ast.Attribute):
        ov = self.eval(target.value.value, st, func)
        if ov.obj is not None:
          st.vars[(ov.obj.oid, target.value.attr)] = base.with_(d=r)
    elif isinstance(target, ast.Starred):
      self.assign(target.value, v, st, func, stmt)

  # ---------------------------------------------------------- expressions
  def eval(self, e, st, func):
    m = getattr(self, 'ev_' + type(e).__name__, None)
    if m is None:
      self.unsupported.append((func, e, type(e).__name__))
      return V(self.dom.top(e))
    return m(e, st, func)

  def _constv(self, value, node=None):
    ty = None
    if value is None:
      ty = 'none'
    elif isinstance(value, str):
      ty = 'str'
    try:
      c = frozenset([value])
    except TypeError:
      c = NOCONST
    return V(self.dom.const(value, node), c=c, ty=ty)

  def ev_Constant(self, e, st, func):
    return self._constv(e.value, e)

  def load_name(self, name, node, st, func):
    if name in st.vars:
      if ('?unbound', name) in st.vars:
        self.dom.maybe_unbound_read(name, node, st)
      return st.vars[name]
    m = func.module
    if name in m.functions:
      return V(None, fn=('repo', m.functions[name], None))
    if name in m.classes:
      return V(None, fn=('class', m.classes[name]))
    if name in m.aliases:
      d = m.aliases[name]
      f = self.repo.func_by_dotted(d)
      if f is not None:
        return V(None, fn=('repo', f, None))
      c = self.repo.class_by_dotted(d)
      if c is not None:
        return V(None, fn=('class', c))
      return V(self.dom.global_read(m, name, node), fn=('ext', canon(d)))
    if name in m.consts:
      cv = self._constv(m.consts[name], node)
      return cv
    if name in m.const_exprs:
      ex = m.const_exprs[name]
      if isinstance(ex, (ast.Dict, ast.Tuple, ast.List, ast.Lambda)) and \
              name not in getattr(self, '_modconst_busy', ()):
        # a module-level table (e.g. a dispatch dict of functions): evaluate
        # the literal in module scope
        self._modconst_busy = getattr(self, '_modconst_busy', ()) + (name,)
        try:
          fake = FuncInfo(m, '<module>', ast.parse('def f(): pass').body[0])
          fake.cls = None
          return self.eval(ex, State({}, st.aux), fake)
        finally:
          self._modconst_busy = self._modconst_busy[:-1]
      return V(self.dom.global_read(m, name, node))
    import builtins
    if hasattr(builtins, name):
      return V(self.dom.top(node), fn=('ext', 'builtins.' + name))
    return V(self.dom.unbound_name(name, node, st))

  def ev_Name(self, e, st, func):
    return self.load_name(e.id, e, st, func)

  def load_attr(self, objv, attr, node, st, func):
    if objv.obj is not None:
      key = (objv.obj.oid, attr)
      if key in st.vars:
        if ('?unbound', key) in st.vars:
          self.dom.maybe_unassigned_read(objv.obj.cls, attr, node, st)
        return st.vars[key]
      cls = objv.obj.cls
      meth = self.repo.resolve_method(cls, attr)
      if isinstance(meth, FuncInfo):
        return V(None, fn=('repo', meth, objv))
      if meth is not None:
        return V(self.dom.top(node), fn=('extmethod', meth[1], objv))
      k, expr = self.repo.class_attr(cls, attr)
      if expr is not None:
        # evaluate the class-level expression in its defining module
        fake = FuncInfo(k.module, '<classbody>', ast.parse('def f(): pass')
                        .body[0])
        fake.cls = None
        return self.eval(expr, State(self._class_scope(k), st.aux), fake)
      if objv.obj.oid == 'self' and attr in self.repo.init_params(cls):
        return V(self.dom.hyperparam(cls, attr, node),
                 origin=('hyper', attr))
      if attr == '__class__':
        return V(self.dom.top(node))
      return V(self.dom.fitted_read(cls, attr, node, st),
               origin=('attr', attr))
    if objv.fn is not None and objv.fn[0] == 'class':
      # Base.method (unbound) or class attribute
      cls = objv.fn[1]
      meth = self.repo.resolve_method(cls, attr)
      if isinstance(meth, FuncInfo):
        return V(None, fn=('repo', meth, None))
      k, expr = self.repo.class_attr(cls, attr)
      if expr is not None:
        fake = FuncInfo(k.module, '<classbody>',
                        ast.parse('def f(): pass').body[0])
        return self.eval(expr, State(self._class_scope(k), st.aux), fake)
    if objv.fn is not None and objv.fn[0] == 'ext':
      d = objv.fn[1] + '.' + attr
      return V(self.dom.global_read(func.module, d, node),
               fn=('ext', canon(d)))
    if objv.kv is not None and attr in ('get', 'items', 'keys'):
      pass
    return self._wrap(self.dom.attr(objv, attr, node, st))

  def ev_Attribute(self, e, st, func):
    # dotted library names first (np.inf, np.newaxis, np.linalg.eigh ...)
    d = self.repo.dotted(func.module, e)
    root = e
    while isinstance(root, ast.Attribute):
      root = root.value
    if d is not None and isinstance(root, ast.Name) and \
            root.id not in st.vars:
      f = self.repo.func_by_dotted(d)
      if f is not None:
        return V(None, fn=('repo', f, None))
      c = self.repo.class_by_dotted(d)
      if c is not None:
        return V(None, fn=('class', c))
      # class attribute / method of a repo class referenced by name
      if isinstance(e.value, (ast.Name, ast.Attribute)):
        base_d = self.repo.dotted(func.module, e.value)
        bc = self.repo.class_by_dotted(base_d)
        if bc is not None:
          return self.load_attr(V(None, fn=('class', bc)), e.attr, e, st,
                                func)
      cd = canon(d)
      v = V(self.dom.global_read(func.module, cd, e), fn=('ext', cd))
      if cd in ('numpy.inf', 'numpy.newaxis', 'numpy.nan', 'numpy.pi'):
        v.fn = None
        if cd == 'numpy.newaxis':
          v.c = frozenset([None])
          v.ty = 'none'
        if cd == 'numpy.inf':
          v.c = frozenset([float('inf')])
      return v
    objv = self.eval(e.value, st, func)
    r = self.load_attr(objv, e.attr, e, st, func)
    if isinstance(e.value, ast.Name):
      fact = st.vars.get(('@attr', e.value.id, e.attr))
      if fact is not None and objv.obj is None:
        r = r.with_(c=fact.c)
    return r

  def eval_index(self, sl, st, func):
    """Parsed subscript: list of ('slice', lo, hi, step) | ('expr', V) |
    ('newaxis',) | ('ellipsis',)"""
    parts = sl.elts if isinstance(sl, ast.Tuple) else [sl]
    out = []
    for p in parts:
      if isinstance(p, ast.Slice):
        out.append(('slice',
                    self.eval(p.lower, st, func) if p.lower else None,
                    self.eval(p.upper, st, func) if p.upper else None,
                    self.eval(p.step, st, func) if p.step else None))
      elif isinstance(p, ast.Constant) and p.value is Ellipsis:
        out.append(('ellipsis',))
      else:
        v = self.eval(p, st, func)
        if v.const() is None and v.c is not NOCONST:
          out.append(('newaxis',))
        else:
          out.append(('expr', v))
    return out

  def ev_Subscript(self, e, st, func):
    base = self.eval(e.value, st, func)
    idx = self.eval_index(e.slice, st, func)
    if len(idx) == 1 and idx[0][0] == 'expr':
      k = idx[0][1].const()
      if base.kv is not None and isinstance(k, str) and k in base.kv:
        return base.kv[k]
      if base.kv and k is NOCONST and base.ty == 'dict':
        # entry of a literal dict at an unknown key: any of its values (of
        # the values at the keys the index may still be)
        kc = idx[0][1].c
        keys = [x for x in base.kv if kc is NOCONST or x in kc] or \
            list(base.kv)
        r = None
        for x in keys:
          r = self.join_v(r, base.kv[x])
        return r
      if base.elts is not None and isinstance(k, int) and \
              not isinstance(k, bool) and -len(base.elts) <= k < len(base.elts):
        return base.elts[k]
      if base.elts is not None and base.elts and k is NOCONST and \
              base.ty != 'set' and idx[0][1].elts is None:
        # element of a literal tuple / list at an unknown position: any of
        # its elements
        r = None
        for x in base.elts:
          r = self.join_v(r, x)
        return r
    if len(idx) == 1 and idx[0][0] == 'slice' and base.elts is not None:
      lo = idx[0][1].const() if idx[0][1] is not None else None
      hi = idx[0][2].const() if idx[0][2] is not None else None
      if idx[0][3] is None and lo is not NOCONST and hi is not NOCONST:
        sub = base.elts[lo:hi]
        r = V(None, elts=tuple(sub))
        r.d = self.dom.tuple(list(sub), e, st)
        return r
    return V(self.dom.subscript(base, idx, e, st))

  def ev_Tuple(self, e, st, func):
    if any(isinstance(x, ast.Starred) for x in e.elts):
      vals = [self.eval(x.value if isinstance(x, ast.Starred) else x, st,
                        func) for x in e.elts]
      return V(self.dom.tuple(vals, e, st))
    vals = [self.eval(x, st, func) for x in e.elts]
    v = V(None, elts=tuple(vals))
    v.d = self.dom.tuple(vals, e, st)
    return v

  def ev_List(self, e, st, func):
    vals = [self.eval(x.value if isinstance(x, ast.Starred) else x, st, func)
            for x in e.elts]
    v = V(None, elts=tuple(vals), ty='list')
    v.d = self.dom.list(vals, e, st)
    return v

  def ev_Set(self, e, st, func):
    vals = [self.eval(x, st, func) for x in e.elts]
    v = V(None, elts=tuple(vals), ty='set')
    v.d = self.dom.list(vals, e, st)
    return v

  def ev_Dict(self, e, st, func):
    kv = {}
    ok = True
    for k, val in zip(e.keys, e.values):
      vv = self.eval(val, st, func)
      if k is None:
        if vv.kv is not None:
          kv.update(vv.kv)
        else:
          ok = False
        continue
      kc = self.eval(k, st, func).const()
      if isinstance(kc, str):
        kv[kc] = vv
      else:
        ok = False
    v = V(None, kv=kv if ok else None, ty='dict')
    v.d = self.dom.dict(kv, e, st)
    return v

  def ev_JoinedStr(self, e, st, func):
    vals = []
    for p in e.values:
      if isinstance(p, ast.FormattedValue):
        vals.append(self.eval(p.value, st, func))
    return V(self.dom.fstring(vals, e, st), ty='str')

  def ev_FormattedValue(self, e, st, func):
    return self.eval(e.value, st, func)

  def ev_BinOp(self, e, st, func):
    l = self.eval(e.left, st, func)
    r = self.eval(e.right, st, func)
    c = NOCONST
    lc, rc = l.const(), r.const()
    if lc is not NOCONST and rc is not NOCONST and \
            isinstance(lc, (int, float)) and isinstance(rc, (int, float)) \
            and not isinstance(lc, bool) and not isinstance(rc, bool):
      try:
        val = eval(compile(ast.Expression(ast.BinOp(
            ast.Constant(lc), e.op, ast.Constant(rc))), '<c>', 'eval'))
        c = frozenset([val])
      except Exception:
        c = NOCONST
    v = V(None, c=c)
    # list + list keeps literal elements (authorized option tables)
    if isinstance(e.op, ast.Add) and l.elts is not None and \
            r.elts is not None:
      v.elts = tuple(l.elts) + tuple(r.elts)
      v.ty = l.ty
    if isinstance(e.op, ast.Mod) and l.ty == 'str':
      v.ty = 'str'
    v.d = self.dom.binop(e.op, l, r, e, st)
    return v

  def ev_UnaryOp(self, e, st, func):
    v = self.eval(e.operand, st, func)
    c = NOCONST
    vc = v.const()
    if isinstance(e.op, ast.Not):
      t = self.truth(v)
      if t is not None:
        c = frozenset([not t])
    elif vc is not NOCONST and isinstance(vc, (int, float)) and \
            not isinstance(vc, bool):
      if isinstance(e.op, ast.USub):
        c = frozenset([-vc])
      elif isinstance(e.op, ast.UAdd):
        c = frozenset([vc])
    r = V(None, c=c)
    r.d = self.dom.unop(e.op, v, e, st)
    return r

  def ev_BoolOp(self, e, st, func):
    vals = []
    s = st
    result_c = NOCONST
    decided = None
    # short-circuit refinement: later operands see earlier ones as true/false
    work = st.copy()
    for i, x in enumerate(e.values):
      v = self.eval(x, work, func)
      vals.append(v)
      t = self.truth(v)
      if isinstance(e.op, ast.And):
        if t is False:
          decided = False
          break
        self.refine(x, True, work, func)
      else:
        if t is True:
          decided = True
          break
        self.refine(x, False, work, func)
    if decided is None:
      ts = [self.truth(v) for v in vals]
      if all(t is not None for t in ts):
        decided = all(ts) if isinstance(e.op, ast.And) else any(ts)
    r = V(None)
    if decided is not None:
      r.c = frozenset([decided])
    r.d = self.dom.boolop(e.op, vals, e, st)
    return r

  def ev_Compare(self, e, st, func):
    vals = [self.eval(e.left, st, func)] + \
        [self.eval(x, st, func) for x in e.comparators]
    r = V(None)
    if len(e.ops) == 1:
      t = self._const_compare(e.ops[0], vals[0], vals[1])
      if t is not None:
        r.c = frozenset([t])
    r.d = self.dom.compare(e.ops, vals, e, st)
    return r

  def _const_compare(self, op, l, r):
    lc, rc = l.c, r.c
    if isinstance(op, (ast.Is, ast.IsNot)):
      res = None
      if r.const() is None and r.c is not NOCONST:
        if l.c is not NOCONST:
          if l.c == frozenset([None]):
            res = True
          elif None not in l.c:
            res = False
        elif l.ty in ('ndarray', 'str', 'instance', 'list', 'dict', 'set'):
          res = False
        elif l.elts is not None or l.fn is not None or l.obj is not None:
          res = False
      if res is None:
        return None
      return res if isinstance(op, ast.Is) else not res
    if isinstance(op, (ast.Eq, ast.NotEq)):
      res = None
      if lc is not NOCONST and rc is not NOCONST:
        if len(lc) == 1 and len(rc) == 1:
          res = (next(iter(lc)) == next(iter(rc)))
        elif not (lc & rc):
          res = False
      elif rc is not NOCONST and l.ty == 'none':
        res = (None in rc and len(rc) == 1)
      if res is None:
        return None
      return res if isinstance(op, ast.Eq) else not res
    if isinstance(op, (ast.In, ast.NotIn)):
      res = None
      members = _members(r)
      if members is not None:
        if lc is not NOCONST:
          if lc <= members:
            res = True
          elif not (lc & members):
            res = False
      if res is None:
        return None
      return res if isinstance(op, ast.In) else not res
    if isinstance(op, (ast.Lt, ast.LtE, ast.Gt, ast.GtE)):
      a, b = l.const(), r.const()
      # x < inf for a computed (finite) x: only in domains that state the
      # assumption (objective values are finite: asserted by the repository,
      # NaN / inf excluded by the properties' quantifiers)
      if getattr(self.dom, 'assume_finite_lt_inf', False):
        inf = float('inf')
        if isinstance(op, ast.Lt) and b == inf and a is NOCONST and \
                l.ty not in ('none', 'str'):
          return True
        if isinstance(op, ast.Gt) and a == inf and b is NOCONST and \
                r.ty not in ('none', 'str'):
          return True
      if a is not NOCONST and b is not NOCONST and \
              isinstance(a, (int, float)) and isinstance(b, (int, float)):
        return {ast.Lt: a < b, ast.LtE: a <= b, ast.Gt: a > b,
                ast.GtE: a >= b}[type(op)]
    return None

  def ev_IfExp(self, e, st, func):
    tv = self.eval(e.test, st, func)
    t = self.truth(tv)
    if t is True:
      return self.eval(e.body, st, func)
    if t is False:
      return self.eval(e.orelse, st, func)
    s1 = st.copy()
    self.refine(e.test, True, s1, func)
    a = self.eval(e.body, s1, func)
    s2 = st.copy()
    self.refine(e.test, False, s2, func)
    b = self.eval(e.orelse, s2, func)
    r = self.join_v(a, b)
    r = r.with_(d=self.dom.ifexp(tv, a, b, e, st))
    return r

  def ev_Lambda(self, e, st, func):
    fnode = ast.FunctionDef(name='<lambda>', args=e.args,
                            body=[ast.Return(value=e.body)],
                            decorator_list=[], lineno=e.lineno,
                            col_offset=e.col_offset)
    ast.fix_missing_locations(fnode)
    fi = FuncInfo(func.module, '<lambda>', fnode, parent=func)
    v = V(None, fn=('closure', fi, dict(st.vars)))
    v.d = self.dom.closure(v, e, st)
    return v

  def _comp(self, e, elt_nodes, st, func):
    work = st.copy()
    iters = []
    for g in e.generators:
      itv = self.eval(g.iter, work, func)
      iters.append(itv)
      ev = self._elem_consts(self.dom.iter_elem(itv, g, work), itv)
      self.assign(g.target, ev, work, func, g)
      for cond in g.ifs:
        cvv = self.eval(cond, work, func)
        self.refine(cond, True, work, func)
        self.dom.on_branch(cond, cvv, True, g, work)
    elts = [self.eval(x, work, func) for x in elt_nodes]
    # effects on heap/aux inside comprehension are kept
    for k, v in work.vars.items():
      if is_heap(k):
        st.vars[k] = v
    st.aux = work.aux
    return elts, iters

  def ev_ListComp(self, e, st, func):
    # over a literal tuple / list of known elements the comprehension is
    # unrolled: element k of the result is the expression for element k
    # (`u, v = (f(p) for p in (u, v))` keeps the two values apart)
    if len(e.generators) == 1 and not e.generators[0].ifs and \
            not isinstance(e, ast.SetComp):
      g = e.generators[0]
      probe = st.copy()
      itv = self.eval(g.iter, probe, func)
      if itv.elts is not None and 0 < len(itv.elts) <= 8 and itv.ty != 'set':
        outs = []
        for x in itv.elts:
          work = st.copy()
          self.assign(g.target, x, work, func, g)
          outs.append(self.eval(e.elt, work, func))
          for k, v in work.vars.items():
            if is_heap(k):
              st.vars[k] = v
          st.aux = work.aux
        r = V(None, elts=tuple(outs), ty='list')
        r.d = self.dom.list(outs, e, st) if not isinstance(
            e, ast.GeneratorExp) else self.dom.tuple(outs, e, st)
        return r
    elts, iters = self._comp(e, [e.elt], st, func)
    return V(self.dom.comprehension(elts[0], iters, e, st), ty='list')

  ev_GeneratorExp = ev_ListComp
  ev_SetComp = ev_ListComp

  def ev_DictComp(self, e, st, func):
    elts, iters = self._comp(e, [e.key, e.value], st, func)
    return V(self.dom.comprehension(elts[1], iters, e, st), ty='dict')

  def ev_Starred(self, e, st, func):
    return self.eval(e.value, st, func)

  def ev_Slice(self, e, st, func):
    return V(self.dom.top(e))

  def ev_NamedExpr(self, e, st, func):
    v = self.eval(e.value, st, func)
    self.assign(e.target, v, st, func, e)
    return v

  # ---------------------------------------------------------------- calls
  def ev_Call(self, e, st, func):
    return self.eval_call(e, st, func)

  def _eval_args(self, e, st, func):
    args = []
    for a in e.args:
      if isinstance(a, ast.Starred):
        v = self.eval(a.value, st, func)
        if v.elts is not None:
          args.extend(v.elts)
        else:
          args.append(V(self.dom.unpack(v, 1, a, st)[0].d, origin='*'))
      else:
        args.append(self.eval(a, st, func))
    kwargs = {}
    for k in e.keywords:
      v = self.eval(k.value, st, func)
      if k.arg is None:
        if v.kv is not None:
          kwargs.update(v.kv)
        else:
          kwargs['**'] = v
      else:
        kwargs[k.arg] = v
    return args, kwargs

  def eval_call(self, e, st, func, want_flow=False):
    f = e.func
    # super().m(...) / super(C, self).m(...)
    if isinstance(f, ast.Attribute) and isinstance(f.value, ast.Call) and \
            isinstance(f.value.func, ast.Name) and f.value.func.id == 'super':
      selfv = st.vars.get(func.params()[0]) if func.params() else None
      cur_cls = func.cls
      if f.value.args:
        cv = self.eval(f.value.args[0], st, func)
        if cv.fn and cv.fn[0] == 'class':
          cur_cls = cv.fn[1]
        elif isinstance(f.value.args[0], ast.Name):
          # super(LinAlgError, self): external class named explicitly
          cur_cls = None
      args, kwargs = self._eval_args(e, st, func)
      if selfv is not None and selfv.obj is not None and cur_cls is not None:
        meth = self.repo.resolve_method(selfv.obj.cls, f.attr, after=cur_cls)
        if isinstance(meth, FuncInfo):
          self.dom.on_call('repo', meth, args, kwargs, e, st)
          return self.call_repo(meth, [selfv] + args, kwargs, e, st, func,
                                want_flow)
        self.dom.on_call('ext', meth[1] if meth else 'super.' + f.attr, args,
                         kwargs, e, st)
        return self._wrap(self.dom.ext_call(
            meth[1] if meth else 'super.' + f.attr, [selfv] + args, kwargs, e,
            st, self))
      self.dom.on_call('ext', 'super.' + f.attr, args, kwargs, e, st)
      return self._wrap(self.dom.ext_call('super.' + f.attr, args, kwargs, e,
                                          st, self))
    # method call on a value?
    if isinstance(f, ast.Attribute):
      d = self.repo.dotted(func.module, f)
      root = f
      while isinstance(root, ast.Attribute):
        root = root.value
      is_global = d is not None and isinstance(root, ast.Name) and \
          root.id not in st.vars
      if not is_global:
        recv = self.eval(f.value, st, func)
        args, kwargs = self._eval_args(e, st, func)
        return self.call_method(recv, f.attr, args, kwargs, e, st, func,
                                want_flow)
    callee = self.eval(f, st, func)
    args, kwargs = self._eval_args(e, st, func)
    return self.call_value(callee, args, kwargs, e, st, func, want_flow)

  def _wrap(self, r):
    return r if isinstance(r, V) else V(r)

  def call_method(self, recv, name, args, kwargs, e, st, func, want_flow=False):
    if recv.obj is not None:
      key = (recv.obj.oid, name)
      if key in st.vars and isinstance(st.vars[key], V) and st.vars[key].fn:
        return self.call_value(st.vars[key], args, kwargs, e, st, func,
                               want_flow)
      meth = self.repo.resolve_method(recv.obj.cls, name)
      if isinstance(meth, FuncInfo):
        self.calls_resolved += 1
        self.dom.on_call('repo', meth, args, kwargs, e, st)
        if meth.is_static:
          return self.call_repo(meth, args, kwargs, e, st, func, want_flow)
        return self.call_repo(meth, [recv] + args, kwargs, e, st, func,
                              want_flow)
      if meth is not None:
        self.dom.on_call('ext', meth[1], [recv] + args, kwargs, e, st)
        return self._wrap(self.dom.ext_call(meth[1], [recv] + args, kwargs,
                                            e, st, self))
      # not a method: the attribute holds a callable (a stored function, a
      # user-supplied hyper-parameter): call its value
      if isinstance(e.func, ast.Attribute):
        callee = self.load_attr(recv, name, e.func, st, func)
        return self.call_value(callee, args, kwargs, e, st, func, want_flow)
    if recv.fn is not None and recv.fn[0] == 'class':
      meth = self.repo.resolve_method(recv.fn[1], name)
      if isinstance(meth, FuncInfo):
        self.calls_resolved += 1
        self.dom.on_call('repo', meth, args, kwargs, e, st)
        return self.call_repo(meth, args, kwargs, e, st, func, want_flow)
    # list.append on literal lists keeps the element facet
    if name == 'append' and recv.elts is not None and len(args) == 1 and \
            isinstance(e.func.value, ast.Name):
      nv = recv.with_(elts=tuple(recv.elts) + (args[0],))
      nv.d = self.dom.list(list(nv.elts), e, st)
      st.vars[e.func.value.id] = nv
      return self._constv(None)
    if name == 'format' and recv.ty == 'str':
      self.dom.on_call('method', (recv, name), args, kwargs, e, st)
      return V(self.dom.fstring(args + list(kwargs.values()), e, st),
               ty='str')
    if name == 'join' and recv.ty == 'str':
      return V(self.dom.fstring(args, e, st), ty='str')
    if name == 'update' and recv.origin and recv.origin[0] == 'vars-of' and \
            not args and '**' not in kwargs:
      # vars(obj).update(a=x, b=y) stores obj.a, obj.b
      objv = recv.origin[1]
      for k_, v_ in kwargs.items():
        self.dom.on_store_attr(objv, k_, v_, e, st)
        st.vars[(objv.obj.oid, k_)] = v_
      return self._constv(None)
    if name == 'copy' and recv.kv is not None:
      return recv.with_()
    if name in ('items', 'keys', 'values') and recv.kv and \
            recv.ty == 'dict' and not args and not kwargs:
      outs = []
      for k_, v_ in recv.kv.items():
        kv_ = self._constv(k_, e)
        if name == 'items':
          pair = V(None, elts=(kv_, v_))
          pair.d = self.dom.tuple([kv_, v_], e, st)
          outs.append(pair)
        else:
          outs.append(kv_ if name == 'keys' else v_)
      r = V(None, elts=tuple(outs), ty='list')
      r.d = self.dom.list(outs, e, st)
      return r
    if name == 'get' and recv.kv and recv.ty == 'dict' and \
            1 <= len(args) <= 2 and not kwargs:
      k = args[0].const()
      dflt = args[1] if len(args) > 1 else self._constv(None)
      if isinstance(k, str):
        return recv.kv.get(k, dflt)
      r = dflt
      for x in recv.kv.values():
        r = self.join_v(r, x)
      return r
    self.dom.on_call('method', (recv, name), args, kwargs, e, st)
    r = self._wrap(self.dom.method_call(recv, name, args, kwargs, e, st,
                                        self))
    return r

  def call_value(self, callee, args, kwargs, e, st, func, want_flow=False):
    fn = callee.fn
    if fn is None and callee.obj is not None:
      meth = self.repo.resolve_method(callee.obj.cls, '__call__')
      if isinstance(meth, FuncInfo):
        self.calls_resolved += 1
        self.dom.on_call('repo', meth, args, kwargs, e, st)
        return self.call_repo(meth, [callee] + args, kwargs, e, st, func,
                              want_flow)
    if fn is None:
      self.calls_unresolved.append((func, e))
      self.dom.on_call('unknown', callee, args, kwargs, e, st)
      return self._wrap(self.dom.value_call(callee, args, kwargs, e, st))
    kind = fn[0]
    if kind == 'multi':
      # any of finitely many known callables: each is analysed from a copy of
      # the state; results and states are joined
      res, outs = None, []
      for alt in fn[1]:
        s2 = st.copy()
        s2.aux = self.dom.aux_copy(s2.aux)
        r = self.call_value(callee.with_(fn=alt), list(args), dict(kwargs),
                            e, s2, func)
        if self._dead:
          self._dead = False
          continue
        res = r if res is None else self.join_v(res, r)
        outs.append(s2)
      if not outs:
        self._dead = True
        return V(self.dom.top(e))
      j = self.join_states(outs)
      st.vars, st.aux = j.vars, j.aux
      return res
    if kind == 'repo':
      self.calls_resolved += 1
      target = fn[1]
      selfv = fn[2]
      self.dom.on_call('repo', target, args, kwargs, e, st)
      full = ([selfv] + args) if (selfv is not None and
                                  not target.is_static) else args
      return self.call_repo(target, full, kwargs, e, st, func, want_flow)
    if kind == 'closure' or kind == 'lambda':
      self.calls_resolved += 1
      self.dom.on_call('closure', fn[1], args, kwargs, e, st)
      return self.call_repo(fn[1], args, kwargs, e, st, func, want_flow,
                            closure_env=fn[2])
    if kind == 'class':
      self.calls_resolved += 1
      cls = fn[1]
      self.dom.on_call('class', cls, args, kwargs, e, st)
      obj = Obj(cls, self.new_oid(cls.name))
      inst = V(None, obj=obj, ty='instance')
      inst.d = self.dom.instance(cls, e, st)
      init = self.repo.resolve_method(cls, '__init__')
      if isinstance(init, FuncInfo):
        self.call_repo(init, [inst] + args, kwargs, e, st, func)
      return inst
    if kind in ('ext', 'extmethod'):
      self.calls_resolved += 1
      d = fn[1]
      full = args
      if kind == 'extmethod':
        full = [fn[2]] + args
      if d == 'builtins.isinstance' and len(args) == 2:
        r = self._isinstance(args[0], e.args[1], func)
        v = self._wrap(self.dom.ext_call(d, full, kwargs, e, st, self))
        if r is not None:
          v = v.with_(c=frozenset([r]))
        return v
      if d == 'builtins.dict' and not args and '**' not in kwargs:
        v = V(None, kv=dict(kwargs), ty='dict')
        v.d = self.dom.dict(kwargs, e, st)
        return v
      if d == 'builtins.setattr' and len(args) == 3 and not kwargs and \
              isinstance(args[1].const(), str) and args[0].obj is not None:
        # setattr(obj, '<literal name>', v) is obj.<name> = v
        self.dom.on_call('ext', d, full, kwargs, e, st)
        self.dom.on_store_attr(args[0], args[1].const(), args[2], e, st)
        st.vars[(args[0].obj.oid, args[1].const())] = args[2]
        return self._constv(None)
      if d == 'builtins.vars' and len(args) == 1 and not kwargs and \
              args[0].obj is not None:
        return V(self.dom.top(e), origin=('vars-of', args[0]))
      if d == 'builtins.getattr' and len(args) >= 2 and \
              isinstance(args[1].const(), str) and args[0].obj is not None:
        name = args[1].const()
        cls = args[0].obj.cls
        key = (args[0].obj.oid, name)
        if key in st.vars or self.repo.class_attr(cls, name)[1] is not None \
                or self.repo.resolve_method(cls, name) is not None or \
                name in self.repo.init_params(cls):
          return self.load_attr(args[0], name, e, st, func)
        if len(args) == 3:
          stored = self.repo.stored_attrs()
          if name not in stored and '*' not in stored:
            return args[2]      # never assigned anywhere: the default
          # the attribute may or may not exist (state left by earlier calls)
          cur = self.load_attr(args[0], name, e, st, func)
          return self.join_v(args[2], cur)
      self.dom.on_call('ext', d, full, kwargs, e, st)
      r = self._wrap(self.dom.ext_call(d, full, kwargs, e, st, self))
      if d in ARRAY_MAKERS and r.ty is None and r.c is NOCONST and \
              r.elts is None and r.obj is None and r.fn is None:
        r = r.with_(ty='ndarray')
      return r
    self.calls_unresolved.append((func, e))
    return V(self.dom.unknown_call(e, st))

  def _isinstance(self, v, tnode, func):
    tnames = []
    for t in (tnode.elts if isinstance(tnode, ast.Tuple) else [tnode]):
      d = self.repo.dotted(func.module, t) or \
          (t.id if isinstance(t, ast.Name) else None)
      tnames.append(d)
    tags = set()
    for d in tnames:
      if d in ('numpy.ndarray',):
        tags.add('ndarray')
      elif d == 'str':
        tags.add('str')
      elif d in ('int', 'float', 'bool'):
        tags.add('num')
      else:
        tags.add('?')
    c = v.const()
    if c is not NOCONST or (v.c is not NOCONST and v.c):
      kinds = set()
      for x in v.c:
        if isinstance(x, str):
          kinds.add('str')
        elif isinstance(x, (int, float)):
          kinds.add('num')
        elif x is None:
          kinds.add('none')
        else:
          kinds.add('?')
      if '?' not in kinds and '?' not in tags:
        if kinds <= tags:
          return True
        if not (kinds & tags):
          return False
      return None
    if v.ty in ('ndarray', 'str', 'none') and '?' not in tags:
      return v.ty in tags
    if isinstance(v.ty, tuple) and v.ty[0] == 'not' and '?' not in tags:
      if tags <= set(v.ty[1]):
        return False
    return None

  def bind_args(self, target, args, kwargs, e, st, func):
    a = target.node.args
    pos = [x.arg for x in a.posonlyargs + a.args]
    defaults = target.defaults()
    bound = {}
    extra_pos = []
    for i, v in enumerate(args):
      if v.origin == '*':
        # *expr of unknown length: it supplies every remaining positional
        for p in pos[i:]:
          if p not in kwargs:
            bound.setdefault(p, v.with_(origin=None))
        break
      if i < len(pos):
        bound[pos[i]] = v
      else:
        extra_pos.append(v)
    extra_kw = {}
    kwonly = [x.arg for x in a.kwonlyargs]
    for k, v in kwargs.items():
      if k == '**':
        continue
      if k in pos or k in kwonly:
        bound[k] = v
      else:
        extra_kw[k] = v
    star = kwargs.get('**')
    for p in pos + kwonly:
      if p in bound:
        continue
      if star is not None:
        bound[p] = V(self.dom.top(e), origin=('**', p))
      elif p in defaults:
        fake = FuncInfo(target.module, '<default>',
                        ast.parse('def f(): pass').body[0])
        bound[p] = self.eval(defaults[p], State({}, st.aux), fake)
      else:
        bound[p] = V(self.dom.top(e), origin=('missing', p))
    if a.vararg:
      tv = V(None, elts=tuple(extra_pos))
      tv.d = self.dom.tuple(extra_pos, e, st)
      bound[a.vararg.arg] = tv
    if a.kwarg:
      kvv = V(None, kv=dict(extra_kw) if star is None else None, ty='dict')
      kvv.d = self.dom.dict(extra_kw, e, st)
      bound[a.kwarg.arg] = kvv
    return bound

  def call_repo(self, target, args, kwargs, e, st, func, want_flow=False,
                closure_env=None):
    if target in self.stack or len(self.stack) >= self.dom.inline_depth:
      # recursion / depth cap: the callee is not analysed on this chain
      self.depth_cuts = getattr(self, 'depth_cuts', 0) + 1
      return V(self.dom.unknown_call(e, st))
    if target.is_abstract:
      return V(self.dom.unknown_call(e, st))
    summ = self.dom.summary(target, args, kwargs, e, st)
    if summ is not None:
      return self._wrap(summ)
    bound = self.bind_args(target, args, kwargs, e, st, func)
    # facts about attributes of a local (x.ndim == 2, ...) travel with the
    # local when it is passed as a plain name
    for p_, an in self._arg_pairs(target, e, func):
      if isinstance(an, ast.Name) and p_ in bound:
        for k_, v_ in list(st.vars.items()):
          if isinstance(k_, tuple) and len(k_) == 3 and k_[0] == '@attr' \
                  and k_[1] == an.id:
            bound[('@attr', p_, k_[2])] = v_
    flow = self._run_body(target, bound, st, closure_env)
    # raises propagate to the caller's statement
    for (names, s, n) in flow.raises:
      cs = State(dict(st.vars), s.aux)
      for k, v in s.vars.items():
        if is_heap(k):
          cs.vars[k] = v
      self._pending_raises.append((names, cs, n))
    if not flow.returns:
      self._dead = True
      return V(self.dom.top(e))
    if want_flow and self.dom.fork:
      wb = self._writeback_pairs(target, e, func)
      for (v, s, n) in flow.returns:
        for p_, nm_ in wb:
          if isinstance(s.vars.get(p_), V):
            s.vars[('@wb', nm_)] = s.vars[p_]
      rets = [(self._wrap(self.dom.call_result(target, v, e, s)), s, n)
              for (v, s, n) in flow.returns]
      return ('flow', rets)
    ret = None
    for (v, s, n) in flow.returns:
      ret = self.join_v(ret, v)
    js = self.join_states([s for (_, s, _) in flow.returns])
    for k in [k for k in st.vars if is_heap(k)]:
      del st.vars[k]
    for k, v in js.vars.items():
      if is_heap(k):
        st.vars[k] = v
    st.aux = js.aux
    self._narrow_args(target, e, js, st, func)
    self._writeback_args(target, e, js, st, func)
    return self._wrap(self.dom.call_result(target, ret, e, st))

  def _writeback_args(self, target, e, js, st, func):
    """A parameter the callee only updates in place (`p += ...`, `p[i] =
    ...`, never `p = ...`) is the caller's array: the caller's variable takes
    the callee's final value of it (joined with its own: a weak update)."""
    aug, plain = set(), set()
    for n in ast.walk(target.node):
      if isinstance(n, ast.AugAssign):
        t = n.target
        while isinstance(t, ast.Subscript):
          t = t.value
        if isinstance(t, ast.Name):
          aug.add(t.id)
      elif isinstance(n, ast.Assign):
        for t in n.targets:
          if isinstance(t, ast.Subscript):
            b = t.value
            while isinstance(b, ast.Subscript):
              b = b.value
            if isinstance(b, ast.Name):
              aug.add(b.id)
          else:
            for y in ast.walk(t):
              if isinstance(y, ast.Name):
                plain.add(y.id)
      elif isinstance(n, ast.Call):
        # library calls that write into an argument: out=<name>, and the
        # in-place numpy functions
        for k in n.keywords:
          if k.arg == 'out' and isinstance(k.value, ast.Name):
            aug.add(k.value.id)
        fn_ = ast.unparse(n.func).rsplit('.', 1)[-1]
        if fn_ in ('putmask', 'place', 'copyto', 'fill_diagonal', 'put',
                   'put_along_axis') and n.args and \
                isinstance(n.args[0], ast.Name):
          aug.add(n.args[0].id)
    for p, an in self._arg_pairs(target, e, func):
      if p in aug and p not in plain and isinstance(an, ast.Name) and \
              an.id in st.vars and isinstance(js.vars.get(p), V) and \
              isinstance(st.vars[an.id], V):
        cur, cv = st.vars[an.id], js.vars[p]
        if cur is not cv:
          st.vars[an.id] = cv if cur.ty == 'ndarray' or cv.ty == 'ndarray' \
              else self.join_v(cur, cv)

  def _writeback_pairs(self, target, e, func):
    """[(parameter, caller's variable)] for the parameters the callee only
    updates in place (see _writeback_args)"""
    aug, plain = set(), set()
    for n in ast.walk(target.node):
      if isinstance(n, ast.AugAssign):
        t = n.target
        while isinstance(t, ast.Subscript):
          t = t.value
        if isinstance(t, ast.Name):
          aug.add(t.id)
      elif isinstance(n, ast.Assign):
        for t in n.targets:
          if isinstance(t, ast.Subscript):
            b = t.value
            while isinstance(b, ast.Subscript):
              b = b.value
            if isinstance(b, ast.Name):
              aug.add(b.id)
          else:
            for y in ast.walk(t):
              if isinstance(y, ast.Name):
                plain.add(y.id)
      elif isinstance(n, ast.Call):
        for k in n.keywords:
          if k.arg == 'out' and isinstance(k.value, ast.Name):
            aug.add(k.value.id)
        fn_ = ast.unparse(n.func).rsplit('.', 1)[-1]
        if fn_ in ('putmask', 'place', 'copyto', 'fill_diagonal', 'put',
                   'put_along_axis') and n.args and \
                isinstance(n.args[0], ast.Name):
          aug.add(n.args[0].id)
    # `w = np.divide(1, w, out=w)` rebinds the name to the same array
    return [(p, an.id) for p, an in self._arg_pairs(target, e, func)
            if p in aug and p not in plain and isinstance(an, ast.Name)]

  def _arg_pairs(self, target, e, func):
    """[(formal name, actual ast)] of a call expression"""
    if not isinstance(e, ast.Call):
      return []
    a = target.node.args
    pos = [x.arg for x in a.posonlyargs + a.args]
    if target.cls is not None and not target.is_static and pos:
      is_bound = isinstance(e.func, ast.Attribute) and not (
          isinstance(e.func.value, ast.Name) and
          e.func.value.id in func.module.classes)
      if is_bound:
        pos = pos[1:]
    pairs = []
    for i, an in enumerate(e.args):
      if isinstance(an, ast.Starred):
        break
      if i < len(pos):
        pairs.append((pos[i], an))
    for k in e.keywords:
      if k.arg is not None:
        pairs.append((k.arg, k.value))
    return pairs

  def _narrow_args(self, target, e, js, st, func):
    """Facts the callee established about a parameter it never rebinds
    (it raised on every other value) hold for the caller's variable."""
    if not isinstance(e, ast.Call):
      return
    stored = set(n.id for n in ast.walk(target.node)
                 if isinstance(n, ast.Name) and isinstance(n.ctx, ast.Store))
    a = target.node.args
    pos = [x.arg for x in a.posonlyargs + a.args]
    if target.cls is not None and not target.is_static and pos:
      is_bound = isinstance(e.func, ast.Attribute) and not (
          isinstance(e.func.value, ast.Name) and
          e.func.value.id in func.module.classes)
      if is_bound:
        pos = pos[1:]
    pairs = []
    for i, an in enumerate(e.args):
      if isinstance(an, ast.Starred):
        break
      if i < len(pos):
        pairs.append((pos[i], an))
    for k in e.keywords:
      if k.arg is not None:
        pairs.append((k.arg, k.value))
    for p, an in pairs:
      if p in stored or not isinstance(an, ast.Name):
        continue
      cv = js.vars.get(p)
      cur = st.vars.get(an.id)
      if isinstance(cv, V) and isinstance(cur, V) and cv.c is not NOCONST:
        if cur.c is NOCONST or cv.c < cur.c:
          st.vars[an.id] = self.dom.refined(cur.with_(c=cv.c, ty=cv.ty
                                                      or cur.ty))

  # --------------------------------------------------- truth & refinement
  def truth(self, v):
    if v.c is not NOCONST and v.c:
      try:
        ts = set(bool(x) for x in v.c)
      except Exception:
        ts = set()
      if len(ts) == 1:
        return ts.pop()
    if v.ty == 'none':
      return False
    if v.fn is not None or v.obj is not None:
      return True
    return self.dom.truth(v)

  def _lvalue_key(self, e, st, func):
    if isinstance(e, ast.Name):
      # only locals carry path facts: a module-level name must not become a
      # (conditionally bound) local of the state
      return e.id if e.id in st.vars else None
    if isinstance(e, ast.Attribute) and isinstance(e.value, ast.Name):
      base = st.vars.get(e.value.id)
      if isinstance(base, V) and base.obj is not None:
        return (base.obj.oid, e.attr)
      if isinstance(base, V) and base.fn is None and \
              e.attr in ('ndim', 'size', 'shape'):
        return ('@attr', e.value.id, e.attr)
    return None

  def _get_lv(self, key, e, st, func):
    if key in st.vars:
      return st.vars[key]
    return self.eval(e, st, func)

  def refine(self, test, taken, st, func):
    """Refine `st` under the assumption that `test` evaluates to `taken`.
    Returns False if that is impossible."""
    before = dict((k, v) for k, v in st.vars.items())
    ok = self._refine(test, taken, st, func)
    if ok:
      for k, v in st.vars.items():
        if isinstance(v, V) and before.get(k) is not v and \
                v.c is not NOCONST:
          st.vars[k] = self.dom.refined(v)
    return ok

  @staticmethod
  def _is_test_expr(e):
    if isinstance(e, ast.Compare):
      return True
    if isinstance(e, ast.UnaryOp) and isinstance(e.op, ast.Not):
      return True
    if isinstance(e, ast.BoolOp):
      return all(Engine._is_test_expr(x) or isinstance(x, ast.Name)
                 for x in e.values)
    if isinstance(e, ast.Call) and isinstance(e.func, ast.Name) and \
            e.func.id == 'isinstance':
      return True
    return False

  def _refine(self, test, taken, st, func):
    if isinstance(test, ast.Name):
      # a boolean temporary stands for the test that defined it
      for k in st.vars:
        if isinstance(k, tuple) and k[0] == '@btest' and k[1] == test.id:
          return self._refine(self._btests[k[2]][0], taken, st, func)
    if isinstance(test, ast.UnaryOp) and isinstance(test.op, ast.Not):
      return self._refine(test.operand, not taken, st, func)
    if isinstance(test, ast.BoolOp):
      conj = isinstance(test.op, ast.And)
      if conj == taken:
        # all operands have the value `taken`
        for x in test.values:
          v = self.eval(x, st.copy(), func)
          t = self.truth(v)
          if t is not None and t != taken:
            return False
          if not self._refine(x, taken, st, func):
            return False
        return True
      # (and is false) / (or is true): with two operands where the first is
      # decided, refine the second
      vals = [self.truth(self.eval(x, st.copy(), func)) for x in test.values]
      undecided = [x for x, t in zip(test.values, vals) if t is None]
      decided_other = [t for t in vals if t is not None]
      if conj and any(t is False for t in decided_other):
        return True
      if (not conj) and any(t is True for t in decided_other):
        return True
      if len(undecided) == 1:
        return self._refine(undecided[0], taken, st, func)
      if not undecided:
        return False
      if conj and not taken and len(test.values) == 2:
        # not (isinstance(x, str) and x == 'k'): the equality implies the
        # type test, so x != 'k' holds either way
        for a_, b_ in (test.values, test.values[::-1]):
          if isinstance(a_, ast.Call) and isinstance(a_.func, ast.Name) and \
                  a_.func.id == 'isinstance' and len(a_.args) == 2 and \
                  isinstance(a_.args[1], ast.Name) and \
                  a_.args[1].id == 'str' and isinstance(b_, ast.Compare) and \
                  len(b_.ops) == 1 and isinstance(b_.ops[0], ast.Eq) and \
                  ast.dump(b_.left) == ast.dump(a_.args[0]) and \
                  isinstance(b_.comparators[0], ast.Constant) and \
                  isinstance(b_.comparators[0].value, str):
            return self._refine(b_, False, st, func)
      return True
    if isinstance(test, ast.Compare) and len(test.ops) == 1:
      op = test.ops[0]
      l, r = test.left, test.comparators[0]
      key = self._lvalue_key(l, st, func)
      if key is not None:
        lv = self._get_lv(key, l, st, func)
        rv = self.eval(r, st.copy(), func)
        pos = taken
        if isinstance(op, (ast.IsNot, ast.NotEq, ast.NotIn)):
          pos = not taken
        if isinstance(op, (ast.Is, ast.IsNot)) and rv.const() is None and \
                rv.c is not NOCONST:
          if pos:
            if lv.c is not NOCONST and None not in lv.c:
              return False
            if lv.ty in ('ndarray', 'str', 'instance'):
              return False
            st.vars[key] = lv.with_(c=frozenset([None]), ty='none',
                                    d=self.dom.const(None))
          else:
            if lv.c is not NOCONST:
              nc = lv.c - {None}
              if not nc:
                return False
              st.vars[key] = lv.with_(c=nc)
            elif lv.ty == 'none':
              return False
          return True
        if isinstance(op, (ast.Eq, ast.NotEq)) and rv.const() is not NOCONST:
          k = rv.const()
          if pos:
            if lv.c is not NOCONST and k not in lv.c:
              return False
            if _hashable(k) and k in lv.nc:
              return False
            if lv.ty == 'ndarray' and isinstance(k, str):
              # array == 'str': elementwise comparison in a truth test
              self.dom.array_str_compare(key, k, test, st)
              return False
            st.vars[key] = lv.with_(
                c=frozenset([k]),
                ty='str' if isinstance(k, str) else lv.ty)
          else:
            if lv.c is not NOCONST:
              nc = lv.c - {k}
              if not nc:
                return False
              st.vars[key] = lv.with_(c=nc)
            elif _hashable(k):
              st.vars[key] = lv.with_(nc=lv.nc | {k})
          return True
        if isinstance(op, (ast.In, ast.NotIn)) and \
                _members(rv) is not None:
          members = frozenset(_members(rv))
          if pos:
            if lv.c is not NOCONST:
              nc = lv.c & members
              if not nc:
                return False
            else:
              if lv.ty == 'ndarray':
                return True
              nc = members - lv.nc
              if not nc:
                return False
            ty = 'str' if all(isinstance(x, str) for x in nc) else lv.ty
            st.vars[key] = lv.with_(c=nc, ty=ty)
          else:
            if lv.c is not NOCONST:
              nc = lv.c - members
              if not nc:
                return False
              st.vars[key] = lv.with_(c=nc)
          return True
      return True
    if isinstance(test, ast.Call) and isinstance(test.func, ast.Name) and \
            test.func.id == 'isinstance' and len(test.args) == 2:
      key = self._lvalue_key(test.args[0], st, func)
      if key is not None:
        lv = self._get_lv(key, test.args[0], st, func)
        r = self._isinstance(lv, test.args[1], func)
        if r is not None and r != taken:
          return False
        tn = test.args[1]
        names = [self.repo.dotted(func.module, t) or
                 (t.id if isinstance(t, ast.Name) else None)
                 for t in (tn.elts if isinstance(tn, ast.Tuple) else [tn])]
        tag = None
        if names == ['numpy.ndarray']:
          tag = 'ndarray'
        elif names == ['str']:
          tag = 'str'
        if tag:
          if taken:
            nv = lv.with_(ty=tag)
            if tag == 'ndarray':
              nv.c = NOCONST
            elif lv.c is not NOCONST:
              nc = frozenset(x for x in lv.c if isinstance(x, str))
              if not nc:
                return False
              nv.c = nc
            st.vars[key] = nv
          else:
            if lv.ty == tag:
              return False
            prev = set(lv.ty[1]) if isinstance(lv.ty, tuple) else set()
            nv = lv.with_()
            if lv.ty is None or isinstance(lv.ty, tuple):
              nv.ty = ('not', tuple(sorted(prev | {tag})))
            if tag == 'str' and lv.c is not NOCONST:
              nc = frozenset(x for x in lv.c if not isinstance(x, str))
              if not nc:
                return False
              nv.c = nc
            st.vars[key] = nv
      return True
    key = self._lvalue_key(test, st, func)
    if key is not None:
      lv = self._get_lv(key, test, st, func)
      t = self.truth(lv)
      if t is not None and t != taken:
        return False
      if lv.c is not NOCONST:
        try:
          nc = frozenset(x for x in lv.c if bool(x) == taken)
        except Exception:
          nc = lv.c
        if not nc:
          return False
        st.vars[key] = lv.with_(c=nc)
      elif not taken and lv.ty is None and lv.elts is None and \
              lv.origin and lv.origin[0] in ('param', 'hyper'):
        pass
    return True
