"""Small AST utilities: parents, path conditions of a node, comparison
normalisation, structural queries used by the rule modules."""
import ast

_MIRROR = {ast.Lt: ast.Gt, ast.Gt: ast.Lt, ast.LtE: ast.GtE, ast.GtE: ast.LtE,
           ast.Eq: ast.Eq, ast.NotEq: ast.NotEq}
_NEG = {ast.Lt: ast.GtE, ast.Gt: ast.LtE, ast.LtE: ast.Gt, ast.GtE: ast.Lt,
        ast.Eq: ast.NotEq, ast.NotEq: ast.Eq, ast.Is: ast.IsNot,
        ast.IsNot: ast.Is, ast.In: ast.NotIn, ast.NotIn: ast.In}
_SYM = {ast.Lt: '<', ast.Gt: '>', ast.LtE: '<=', ast.GtE: '>=', ast.Eq: '==',
        ast.NotEq: '!=', ast.Is: 'is', ast.IsNot: 'is not', ast.In: 'in',
        ast.NotIn: 'not in'}


def parents(root):
  pm = {}
  for n in ast.walk(root):
    for ch in ast.iter_child_nodes(n):
      pm[ch] = n
  return pm


def src(n):
  return ast.unparse(n)


def atoms(test, positive=True):
  """Flatten a boolean test into a list of (normalised_text, polarity)
  conjuncts when it is a conjunction under the given polarity; a
  disjunction is returned as one ('(a) or (b)', polarity) atom."""
  if isinstance(test, ast.UnaryOp) and isinstance(test.op, ast.Not):
    return atoms(test.operand, not positive)
  if isinstance(test, ast.BoolOp):
    conj = isinstance(test.op, ast.And)
    if conj == positive:
      out = []
      for v in test.values:
        out.extend(atoms(v, positive))
      return out
    inner = sorted(norm_atom(v, positive) for v in test.values)
    return [(' or '.join('(%s)' % x for x in inner), True)]
  if isinstance(test, ast.Compare) and len(test.ops) > 1 and positive:
    out = []
    operands = [test.left] + list(test.comparators)
    for i, op in enumerate(test.ops):
      c = ast.Compare(left=operands[i], ops=[op], comparators=[operands[i + 1]])
      out.append((norm_atom(c, True), True))
    return out
  return [(norm_atom(test, positive), True)]


def norm_atom(test, positive=True):
  """Canonical text of an atomic test with polarity folded in."""
  if isinstance(test, ast.UnaryOp) and isinstance(test.op, ast.Not):
    return norm_atom(test.operand, not positive)
  if isinstance(test, ast.Compare) and len(test.ops) == 1:
    op = type(test.ops[0])
    l, r = test.left, test.comparators[0]
    if not positive:
      op = _NEG[op]
    # constants to the right
    if isinstance(l, ast.Constant) and not isinstance(r, ast.Constant) \
            and op in _MIRROR:
      l, r = r, l
      op = _MIRROR[op]
    elif not isinstance(l, ast.Constant) and not isinstance(r, ast.Constant) \
            and op in _MIRROR and src(l) > src(r):
      l, r = r, l
      op = _MIRROR[op]
    return '%s %s %s' % (src(l), _SYM[op], src(r))
  if isinstance(test, ast.BoolOp):
    parts = atoms(test, positive)
    return ' and '.join(sorted(p[0] for p in parts))
  return src(test) if positive else 'not (%s)' % src(test)


def path_condition(func_node, target):
  """Conjuncts (normalised text) that hold on every path from the entry of
  func_node to `target`, as far as enclosing if/elif/while tests tell."""
  pm = parents(func_node)
  conds = []
  n = target
  while n is not func_node and n in pm:
    p = pm[n]
    if isinstance(p, ast.If):
      if n in p.body or any(n is x for x in p.body):
        conds.extend(a[0] for a in atoms(p.test, True))
      elif any(n is x for x in p.orelse):
        conds.extend(a[0] for a in atoms(p.test, False))
    elif isinstance(p, ast.While) and any(n is x for x in p.body):
      conds.extend(a[0] for a in atoms(p.test, True))
    elif isinstance(p, ast.IfExp):
      if n is p.body:
        conds.extend(a[0] for a in atoms(p.test, True))
      elif n is p.orelse:
        conds.extend(a[0] for a in atoms(p.test, False))
    n = p
  return sorted(set(conds))


def enclosing(func_node, target, kind):
  pm = parents(func_node)
  n = target
  out = []
  while n in pm:
    p = pm[n]
    if isinstance(p, kind):
      out.append((p, n))
    n = p
  return out


def calls_in(node):
  return [n for n in ast.walk(node) if isinstance(n, ast.Call)]


def stmt_of(func_node, target):
  pm = parents(func_node)
  n = target
  while n in pm and not isinstance(n, ast.stmt):
    n = pm[n]
  return n


def rename_names(node, mapping):
  """Deep copy of `node` with every Name in `mapping` renamed: rules discover
  the variables that play a role (by definition / use), then match against
  canonical role names, so that renaming a local never changes a verdict."""
  import copy

  class _R(ast.NodeTransformer):
    def visit_Name(self, n):
      if n.id in mapping:
        return ast.copy_location(ast.Name(id=mapping[n.id], ctx=n.ctx), n)
      return n
  return _R().visit(copy.deepcopy(node))


def _clone_func(func, node):
  """A FuncInfo for the renamed body (usable by the engine like the
  original)."""
  from .model import FuncInfo
  base = getattr(func, 'orig', func)
  rv = FuncInfo(base.module, base.name, node, cls=base.cls,
                parent=getattr(base, 'parent', None))
  rv.orig = base
  return rv


def role_view(func, roles):
  """`func` with the variables in `roles` {actual name: role name} renamed.
  A renaming that would conflate two variables is not performed: roles
  claimed by two names, and role names already used by another variable of
  the function, are dropped (those variables keep their own names, so the
  rule sees them as they are written)."""
  roles = {k: v for k, v in roles.items() if k != v}
  used = set(n.id for n in ast.walk(func.node) if isinstance(n, ast.Name))
  used |= set(a.arg for n in ast.walk(func.node)
              if isinstance(n, ast.arguments)
              for a in n.posonlyargs + n.args + n.kwonlyargs)
  changed = True
  dropped = {}
  while changed:
    changed = False
    cnt = {}
    for k, v in roles.items():
      cnt[v] = cnt.get(v, 0) + 1
    for k, v in list(roles.items()):
      if cnt[v] > 1 or (v in used and v not in roles):
        dropped[k] = roles.pop(k)
        changed = True
  rv = _clone_func(func, rename_names(func.node, roles))
  rv.dropped = dropped
  return rv
