"""Small AST utilities: parents, path conditions of a node, comparison
normalisation, structural queries used by the rule modules."""
import ast

_MIRROR = {ast.Lt: ast.Gt, ast.Gt: ast.Lt, ast.LtE: ast.GtE, ast.GtE: ast.LtE,
           ast.Eq: ast.Eq, ast.NotEq: ast.NotEq}
_NEG = {ast.Lt: ast.GtE, ast.Gt: ast.LtE, ast.LtE: ast.Gt, ast.GtE: ast.Lt,
        ast.Eq: ast.NotEq, ast.NotEq: ast.Eq, ast.Is: ast.IsNot,
        ast.IsNot: ast.Is, ast.In: ast.NotIn, ast.NotIn: ast.In}
_SYM = {ast.Lt: '<', ast.Gt: '>', ast.LtE: '<=', ast.GtE: '>=', ast.Eq: '==',
        ast.NotEq: '!=', ast.Is: 'is', ast.IsNot: 'is not', ast.In: 'in',
        ast.NotIn: 'not in'}


def parents(root):
  pm = {}
  for n in ast.walk(root):
    for ch in ast.iter_child_nodes(n):
      pm[ch] = n
  return pm


def src(n):
  return ast.unparse(n)


def atoms(test, positive=True):
  """Flatten a boolean test into a list of (normalised_text, polarity)
  conjuncts when it is a conjunction under the given polarity; a
  disjunction is returned as one ('(a) or (b)', polarity) atom."""
  if isinstance(test, ast.UnaryOp) and isinstance(test.op, ast.Not):
    return atoms(test.operand, not positive)
  if isinstance(test, ast.BoolOp):
    conj = isinstance(test.op, ast.And)
    if conj == positive:
      out = []
      for v in test.values:
        out.extend(atoms(v, positive))
      return out
    inner = sorted(norm_atom(v, positive) for v in test.values)
    return [(' or '.join('(%s)' % x for x in inner), True)]
  if isinstance(test, ast.Compare) and len(test.ops) > 1 and positive:
    out = []
    operands = [test.left] + list(test.comparators)
    for i, op in enumerate(test.ops):
      c = ast.Compare(left=operands[i], ops=[op], comparators=[operands[i + 1]])
      out.append((norm_atom(c, True), True))
    return out
  return [(norm_atom(test, positive), True)]


def norm_atom(test, positive=True):
  """Canonical text of an atomic test with polarity folded in."""
  if isinstance(test, ast.UnaryOp) and isinstance(test.op, ast.Not):
    return norm_atom(test.operand, not positive)
  if isinstance(test, ast.Compare) and len(test.ops) == 1:
    op = type(test.ops[0])
    l, r = test.left, test.comparators[0]
    if not positive:
      op = _NEG[op]
    # constants to the right
    if isinstance(l, ast.Constant) and not isinstance(r, ast.Constant) \
            and op in _MIRROR:
      l, r = r, l
      op = _MIRROR[op]
    elif not isinstance(l, ast.Constant) and not isinstance(r, ast.Constant) \
            and op in _MIRROR and src(l) > src(r):
      l, r = r, l
      op = _MIRROR[op]
    return '%s %s %s' % (src(l), _SYM[op], src(r))
  if isinstance(test, ast.BoolOp):
    parts = atoms(test, positive)
    return ' and '.join(sorted(p[0] for p in parts))
  return src(test) if positive else 'not (%s)' % src(test)


def path_condition(func_node, target):
  """Conjuncts (normalised text) that hold on every path from the entry of
  func_node to `target`, as far as enclosing if/elif/while tests tell."""
  pm = parents(func_node)
  conds = []
  n = target
  while n is not func_node and n in pm:
    p = pm[n]
    if isinstance(p, ast.If):
      if n in p.body or any(n is x for x in p.body):
        conds.extend(a[0] for a in atoms(p.test, True))
      elif any(n is x for x in p.orelse):
        conds.extend(a[0] for a in atoms(p.test, False))
    elif isinstance(p, ast.While) and any(n is x for x in p.body):
      conds.extend(a[0] for a in atoms(p.test, True))
    elif isinstance(p, ast.IfExp):
      if n is p.body:
        conds.extend(a[0] for a in atoms(p.test, True))
      elif n is p.orelse:
        conds.extend(a[0] for a in atoms(p.test, False))
    n = p
  return sorted(set(conds))


def enclosing(func_node, target, kind):
  pm = parents(func_node)
  n = target
  out = []
  while n in pm:
    p = pm[n]
    if isinstance(p, kind):
      out.append((p, n))
    n = p
  return out


def calls_in(node):
  return [n for n in ast.walk(node) if isinstance(n, ast.Call)]


def stmt_of(func_node, target):
  pm = parents(func_node)
  n = target
  while n in pm and not isinstance(n, ast.stmt):
    n = pm[n]
  return n


def rename_names(node, mapping):
  """Deep copy of `node` with every Name in `mapping` renamed: rules discover
  the variables that play a role (by definition / use), then match against
  canonical role names, so that renaming a local never changes a verdict."""
  import copy

  class _R(ast.NodeTransformer):
    def visit_Name(self, n):
      if n.id in mapping:
        return ast.copy_location(ast.Name(id=mapping[n.id], ctx=n.ctx), n)
      return n
  return _R().visit(copy.deepcopy(node))


def _clone_func(func, node):
  """A FuncInfo for the renamed body (usable by the engine like the
  original)."""
  from .model import FuncInfo
  base = getattr(func, 'orig', func)
  rv = FuncInfo(base.module, base.name, node, cls=base.cls,
                parent=getattr(base, 'parent', None))
  rv.orig = base
  return rv


def role_view(func, roles):
  """`func` with the variables in `roles` {actual name: role name} renamed.
  A renaming that would conflate two variables is not performed: roles
  claimed by two names, and role names already used by another variable of
  the function, are dropped (those variables keep their own names, so the
  rule sees them as they are written)."""
  roles = {k: v for k, v in roles.items() if k != v}
  used = set(n.id for n in ast.walk(func.node) if isinstance(n, ast.Name))
  used |= set(a.arg for n in ast.walk(func.node)
              if isinstance(n, ast.arguments)
              for a in n.posonlyargs + n.args + n.kwonlyargs)
  changed = True
  dropped = {}
  while changed:
    changed = False
    cnt = {}
    for k, v in roles.items():
      cnt[v] = cnt.get(v, 0) + 1
    for k, v in list(roles.items()):
      if cnt[v] > 1 or (v in used and v not in roles):
        dropped[k] = roles.pop(k)
        changed = True
  rv = _clone_func(func, rename_names(func.node, roles))
  rv.dropped = dropped
  return rv


# Repository functions the rules themselves refer to (anchors of rules): calls
# to them are kept as calls.  Any other helper - in particular one introduced
# by extracting a block - is inlined before a rule looks at its caller.
RULE_ANCHORS = frozenset("""
_D_constraint _D_objective __call__ __init__ _auto_select_init
_check_n_components _check_preprocessor _check_sdp_from_eigen
_chunk_mean_centering _comparison_loss _components_from_basis_weights
_compute_dist_diff _eigh _fD _fD1 _find_impostors _fit _fit_diag _fit_full
_generate_bases_LDA _gradient _initialize_basis _initialize_basis_supervised
_initialize_components _initialize_metric_mahalanobis _inv_sqrtm _loss
_loss_grad _loss_grad_lbfgs _pairs _prepare_inputs _pseudo_inverse_from_eig
_total_loss _validate_calibration_params calibrate_threshold check_input
check_input_classic check_input_tuples check_tuple_size
check_y_valid_values_for_pairs chunks components_from_metric
decision_function fit generate_knntriplets get_mahalanobis_matrix get_metric
make_error_input pair_distance pair_score positive_negative_pairs predict
preprocess_points preprocess_tuples score score_pairs set_threshold transform
validate_vector vector_norm wrap_pairs _check_dimension _select_targets
_generate_bases_dist_diff _to_index_points check_collapsed_pairs
_grad_projection _fS1
""".split())


def inline_helpers(repo, func, depth=2, keep=RULE_ANCHORS):
  """`func` with statement-level calls to simple repository helpers replaced
  by the helper's body, so that a rule sees the same statements whether or
  not a block was extracted into a private function.

  Inlined: `x = helper(args)` / `helper(args)` / `return helper(args)` at
  statement level, where `helper` is a module function or a method called
  on self, is not `func` itself, takes its arguments positionally, and whose
  body (docstring aside) has a single `return` as its last top-level
  statement (or none), no nested def / yield.  Parameters bound to plain
  names are substituted; others become `param = arg` assignments; the
  helper's own locals get a suffix so that they cannot capture the caller's.
  Positions of the inlined statements are those of the helper."""
  import copy
  if depth <= 0:
    return func
  base = getattr(func, 'orig', func)
  caller_names = set(n.id for n in ast.walk(func.node)
                     if isinstance(n, ast.Name))
  counter = [0]

  def callee_of(call):
    f = call.func
    if isinstance(f, ast.Attribute) and isinstance(f.value, ast.Name) and \
            f.value.id == 'self' and base.cls is not None:
      g = repo.resolve_method(base.cls, f.attr)
      return g if hasattr(g, 'node') else None
    if isinstance(f, ast.Name):
      g = repo.func_by_dotted(repo.dotted(base.module, f) or '')
      return g
    return None

  def simple(g):
    body = [s for s in g.node.body if not (
        isinstance(s, ast.Expr) and isinstance(s.value, ast.Constant))]
    rets = [n for n in ast.walk(g.node) if isinstance(n, ast.Return)]
    if len(rets) > 1 or (rets and (not body or rets[0] is not body[-1])):
      return None
    for n in ast.walk(g.node):
      if isinstance(n, (ast.Yield, ast.YieldFrom, ast.Lambda, ast.Global,
                        ast.Nonlocal)) or \
              (isinstance(n, ast.FunctionDef) and n is not g.node):
        return None
    a = g.node.args
    if a.vararg or a.kwarg or a.kwonlyargs:
      return None
    return body

  def expand(call, target):
    """statements replacing `target = call` (target may be None / 'return')"""
    g = callee_of(call)
    if g is not None and g.name in keep:
      return None
    if g is None or g.node is base.node or call.keywords or \
            any(isinstance(x, ast.Starred) for x in call.args):
      return None
    body = simple(g)
    if body is None:
      return None
    params = g.params()
    if g.cls is not None and not g.is_static:
      params = params[1:]
    if len(params) != len(call.args):
      return None
    counter[0] += 1
    sfx = '_%s%d' % (g.name.strip('_'), counter[0])
    mapping = {}
    pre = []
    stored = set(n.id for n in ast.walk(g.node) if isinstance(n, ast.Name)
                 and isinstance(n.ctx, ast.Store))
    # a parameter that the helper only updates in place (`p += ...`,
    # `p[...] = ...`) stands for the caller's object
    rebound = set()
    for n in ast.walk(g.node):
      if isinstance(n, ast.Assign):
        for t_ in n.targets:
          for x in ast.walk(t_):
            if isinstance(x, ast.Name) and isinstance(x.ctx, ast.Store):
              rebound.add(x.id)
      elif isinstance(n, (ast.For, ast.With, ast.NamedExpr, ast.AnnAssign,
                          ast.comprehension)):
        tg_ = getattr(n, 'target', None)
        for x in (ast.walk(tg_) if tg_ is not None else []):
          if isinstance(x, ast.Name):
            rebound.add(x.id)
    for p, a in zip(params, call.args):
      if isinstance(a, ast.Name) and (p not in stored or p not in rebound):
        mapping[p] = a.id
      else:
        mapping[p] = p + sfx
        asg = ast.Assign(targets=[ast.Name(id=p + sfx, ctx=ast.Store())],
                         value=copy.deepcopy(a))
        pre.append(ast.copy_location(asg, call))
    for nm in stored:
      if nm not in mapping:
        mapping[nm] = nm + sfx
    out = list(pre)
    for s in body:
      s2 = rename_names(s, mapping)
      if isinstance(s2, ast.Return):
        if s2.value is None:
          continue
        if target == 'return':
          out.append(s2)
        elif target is None:
          out.append(ast.copy_location(ast.Expr(value=s2.value), s2))
        else:
          out.append(ast.copy_location(
              ast.Assign(targets=[copy.deepcopy(target)], value=s2.value),
              s2))
      else:
        out.append(s2)
    for o in out:
      ast.fix_missing_locations(o)
    return out

  def inlinable(call):
    g = callee_of(call)
    return g is not None and g.name not in keep and g.node is not base.node \
        and not call.keywords and simple(g) is not None and \
        not any(isinstance(x, ast.Starred) for x in call.args)

  def hoist(stmt):
    """[temp = helper(...), ..., stmt'] with helper calls nested in the
    expressions of a simple statement pulled out (innermost first)"""
    pre = []
    if not isinstance(stmt, (ast.Assign, ast.AugAssign, ast.Return, ast.Expr)):
      return [stmt]
    top = stmt.value if hasattr(stmt, 'value') else None
    for _ in range(6):
      found = None
      for n in ast.walk(stmt):
        if isinstance(n, ast.Call) and n is not top and inlinable(n) and \
                not any(isinstance(m, ast.Call) and m is not n and
                        inlinable(m) for m in ast.walk(n)):
          found = n
          break
      if found is None:
        break
      counter[0] += 1
      nm = '_inl%d' % counter[0]
      pre.append(ast.copy_location(
          ast.Assign(targets=[ast.Name(id=nm, ctx=ast.Store())],
                     value=found), found))

      class Rp(ast.NodeTransformer):
        def visit_Call(self, node):
          if node is found:
            return ast.copy_location(ast.Name(id=nm, ctx=ast.Load()), node)
          return self.generic_visit(node)
      Rp().visit(stmt)
    for p_ in pre:
      ast.fix_missing_locations(p_)
    return pre + [stmt]

  class I(ast.NodeTransformer):
    def block(self, body):
      res = []
      body = [x for s0 in body for x in hoist(s0)]
      for s in body:
        s = self.visit(s)
        rep_ = None
        if isinstance(s, ast.Assign) and len(s.targets) == 1 and \
                isinstance(s.value, ast.Call):
          rep_ = expand(s.value, s.targets[0])
        elif isinstance(s, ast.Expr) and isinstance(s.value, ast.Call):
          rep_ = expand(s.value, None)
        elif isinstance(s, ast.Return) and isinstance(s.value, ast.Call):
          rep_ = expand(s.value, 'return')
        res.extend(rep_ if rep_ is not None else [s])
      return res

    def generic_visit(self, node):
      for fld in ('body', 'orelse', 'finalbody'):
        b = getattr(node, fld, None)
        if isinstance(b, list) and b and isinstance(b[0], ast.stmt):
          setattr(node, fld, self.block(b))
      for h in getattr(node, 'handlers', []):
        h.body = self.block(h.body)
      return node
  node = copy.deepcopy(func.node)
  I().visit(node)
  out = _clone_func(func, node)
  if counter[0]:
    return inline_helpers(repo, out, depth - 1, keep)
  return out


def flag_states(body, name, entry):
  """Forward flow of a boolean flag through structured statements.
  States are 'stale' (value from before `body`), 'T', 'F', '?' (assigned
  something else).  Returns (states at the normal end, states at `break`,
  states at `continue`, {id(node): states reaching that node}).  Loops run
  zero or more times; `else` runs when the loop ends without break."""
  reach = {}

  def assign_state(s):
    tg = s.targets if isinstance(s, ast.Assign) else [s.target]
    for t in tg:
      for x in ast.walk(t):
        if isinstance(x, ast.Name) and x.id == name:
          v = getattr(s, 'value', None)
          if isinstance(s, ast.Assign) and isinstance(v, ast.Constant) and \
                  isinstance(v.value, bool):
            return 'T' if v.value else 'F'
          return '?'
    return None

  def flow(stmts, st):
    brk, cont = set(), set()
    cur = set(st)
    for s in stmts:
      reach[id(s)] = set(cur) | reach.get(id(s), set())
      if not cur:
        break
      if isinstance(s, (ast.Assign, ast.AugAssign, ast.AnnAssign)):
        a = assign_state(s)
        if a is not None:
          cur = {a}
      elif isinstance(s, ast.If):
        n1, b1, c1 = flow(s.body, cur)
        n2, b2, c2 = flow(s.orelse, cur)
        cur = n1 | n2
        brk |= b1 | b2
        cont |= c1 | c2
      elif isinstance(s, (ast.For, ast.While)):
        head = set(cur)
        lb = set()
        for _ in range(4):
          n1, b1, c1 = flow(s.body, head)
          lb |= b1
          new = head | n1 | c1
          if new == head:
            break
          head = new
        ne, be, ce = flow(s.orelse, head) if s.orelse else (head, set(),
                                                             set())
        cur = ne | lb
        brk |= be
        cont |= ce
      elif isinstance(s, ast.Break):
        brk |= cur
        cur = set()
      elif isinstance(s, ast.Continue):
        cont |= cur
        cur = set()
      elif isinstance(s, (ast.Return, ast.Raise)):
        cur = set()
      elif isinstance(s, ast.With):
        n1, b1, c1 = flow(s.body, cur)
        cur = n1
        brk |= b1
        cont |= c1
      elif isinstance(s, ast.Try):
        n1, b1, c1 = flow(s.body, cur)
        outs = set(n1)
        for h in s.handlers:
          nh, bh, ch = flow(h.body, cur | n1)
          outs |= nh
          brk |= bh
          cont |= ch
        n3, b3, c3 = flow(s.orelse, n1) if s.orelse else (set(), set(), set())
        if s.orelse:
          outs = (outs - n1) | n3
        cur = outs
        brk |= b1 | b3
        cont |= c1 | c3
    return cur, brk, cont
  n, b, c = flow(body, set(entry))
  return n, b, c, reach


def partial_truth(test, env):
  """Simplify a boolean expression under `env` {name: python constant}.
  Returns True / False, or the residual expression (an ast node) when it
  still depends on something else."""
  if isinstance(test, ast.Constant):
    return bool(test.value)
  if isinstance(test, ast.Name) and test.id in env:
    return bool(env[test.id])
  if isinstance(test, ast.UnaryOp) and isinstance(test.op, ast.Not):
    v = partial_truth(test.operand, env)
    if isinstance(v, bool):
      return not v
    return ast.UnaryOp(op=ast.Not(), operand=v)
  if isinstance(test, ast.BoolOp):
    conj = isinstance(test.op, ast.And)
    rest = []
    for x in test.values:
      v = partial_truth(x, env)
      if isinstance(v, bool):
        if v != conj:
          return v          # False in an and / True in an or
        continue
      rest.append(v)
    if not rest:
      return conj
    return rest[0] if len(rest) == 1 else ast.BoolOp(op=test.op, values=rest)
  if isinstance(test, ast.Compare) and len(test.ops) == 1:
    names = [x.id for x in ast.walk(test) if isinstance(x, ast.Name)]
    if names and all(n in env for n in names) and not any(
            isinstance(x, (ast.Call, ast.Attribute, ast.Subscript))
            for x in ast.walk(test)):
      try:
        return bool(eval(compile(ast.Expression(body=test), '<guard>',
                                 'eval'), {'__builtins__': {}}, dict(env)))
      except Exception:
        return test
  return test


def return_paths(body, env, conds=()):
  """[(return node | None for falling off the end, [(residual test text,
  polarity)])] for the structured statements `body`, tests simplified under
  `env`; loops are not entered (a return inside a loop is reported with the
  loop's iterable as an extra positive condition)."""
  out = []
  conds = list(conds)
  for i, s in enumerate(body):
    if isinstance(s, ast.Return):
      out.append((s, conds))
      return out
    if isinstance(s, ast.Raise):
      return out
    if isinstance(s, ast.If):
      v = partial_truth(s.test, env)
      rest = body[i + 1:]
      if v is True:
        return out + return_paths(list(s.body) + list(rest), env, conds)
      if v is False:
        return out + return_paths(list(s.orelse) + list(rest), env, conds)
      txt = ast.unparse(v)
      out += return_paths(list(s.body) + list(rest), env,
                          conds + [(txt, True)])
      out += return_paths(list(s.orelse) + list(rest), env,
                          conds + [(txt, False)])
      return out
    if isinstance(s, (ast.For, ast.While)):
      for r in ast.walk(s):
        if isinstance(r, ast.Return):
          out.append((r, conds + [('in loop', True)]))
  out.append((None, conds))
  return out


def assign_pairs(stmt):
  """[(target text, value node)] of an assignment, tuple assignments taken
  element by element (`a, b = x, y` -> [('a', x), ('b', y)])."""
  out = []
  if not isinstance(stmt, ast.Assign):
    return out
  for t in stmt.targets:
    if isinstance(t, (ast.Tuple, ast.List)) and \
            isinstance(stmt.value, (ast.Tuple, ast.List)) and \
            len(t.elts) == len(stmt.value.elts):
      for a, b in zip(t.elts, stmt.value.elts):
        out.append((ast.unparse(a), b))
    else:
      out.append((ast.unparse(t), stmt.value))
  return out


def unfold(expr, body, before, stop=()):
  """`expr` with every Name replaced (recursively) by the value last assigned
  to it by a plain `name = value` statement of `body` that precedes the
  statement `before` (names in `stop` and names never assigned there stay).
  Temporaries therefore do not matter when the result is compared."""
  import copy
  idx = body.index(before) if before in body else len(body)
  defs = {}
  for s in body[:idx]:
    if isinstance(s, ast.Assign) and len(s.targets) == 1 and \
            isinstance(s.targets[0], ast.Name):
      defs[s.targets[0].id] = (s.value, s)
    elif isinstance(s, ast.Assign) and len(s.targets) == 1 and \
            isinstance(s.targets[0], ast.Tuple) and \
            isinstance(s.value, ast.Tuple) and \
            len(s.targets[0].elts) == len(s.value.elts):
      for a_, b_ in zip(s.targets[0].elts, s.value.elts):
        if isinstance(a_, ast.Name):
          defs[a_.id] = (b_, s)
    elif isinstance(s, (ast.AugAssign,)) and isinstance(s.target, ast.Name):
      defs.pop(s.target.id, None)

  def go(e, depth, seen):
    class U(ast.NodeTransformer):
      def visit_Name(self, n):
        if isinstance(n.ctx, ast.Load) and n.id in defs and \
                n.id not in stop and n.id not in seen and depth < 8:
          val, st = defs[n.id]
          # only values defined before their own use (no self reference)
          sub = unfold(copy.deepcopy(val), body, st, tuple(stop) + (n.id,))
          return ast.copy_location(sub, n)
        return n
    return U().visit(e)
  return go(copy.deepcopy(expr), 0, set())
