"""Source table for MANIFEST.json (tools/gen_manifest.py)."""
TB = ("Trusted base: CPython ast; the mlstatic engine and its transfer tables (documented numpy/scipy/"
      "scikit-learn semantics); static resolution assumptions of DESIGN.md section 7 (no monkey-patching, "
      "literal attribute names, C3 MRO of the classes as written). Library signatures are those of the "
      "environment the check runs in.")

ALG = ('static analysis: symbolic evaluation (path-forking abstract interpretation) of the MRO-resolved method bodies into a '
       'canonical matrix/form algebra (non-commutative polynomials, row quadratic forms, linear combinations of distance atoms, '
       'normalised comparisons) compared with the documented normal form')

CHECKS = {
 'C01': dict(
  technique=ALG,
  text=('Decides, for all 17 estimators and every fitted model / query point, that pair_distance, score_pairs and the get_metric '
        'closure normalise to Sqrt(RowQuad(x - x\', W W^T)) - the Euclidean semi-norm of a linear image of the difference of the two '
        'points of the same pair, with no additive term - and that pair_score is exactly its negation; non-negativity, exact symmetry, '
        'd(x,x)=0 and the triangle inequality (exact arithmetic) are theorems of that form. Finiteness under overflow and rounding-level '
        'inequalities are NOT decided.'),
  note=TB + ' check_input / validate_vector are summarised as value-identities (justified by C06 rules).'),
 'C02': dict(
  technique=ALG + '; sibling agreement of the middle word across views',
  text=('Decides for all 17 estimators that pair_distance, pair_score, score_pairs, get_metric (plain and squared) and '
        'get_mahalanobis_matrix share the same matrix word L^T L (so they denote the same function of (x, x\', L)), that transform is '
        'X L^T with no additive term, that squared=True/False differ by exactly one square root, and that score_pairs returns '
        'pair_distance after a FutureWarning on every path. Rounding-level equality between views and array-like conversions are NOT decided.'),
  note=TB + ' check_input / validate_vector are summarised as value-identities (justified by C06 rules).'),
 'C04': dict(
  technique=ALG + ' (comparison operator, slot indices and signs kept exact)',
  text=('Decides the whole decision rule of ITML/MMC/SDML (pairs), SCML (triplets), LSML (quadruplets) for every tuple including ties: '
        'decision_function, predict and score normalise to the documented forms over distance atoms D(i,j) and threshold_ '
        '(+1 iff D(0,1) <= threshold_; D(0,2)-D(0,1) with strict >; sign(D(2,3)-D(0,1)); roc_auc_score(y, -D); mean/2+1/2), and '
        'set_threshold stores float(threshold) only and returns self. That roc_auc_score computes ROC-AUC is trusted (scikit-learn).'),
  note=TB + ' Distances themselves are what C01/C02 derive.'),
 'C03': dict(
  technique='static analysis: library-signature conformance of all resolved call sites (inspect), must-pass-through (dominance) and value-identity analysis of every fit, symbolic shape domain (path-sensitive), complex-dtype taint, definite assignment with path conditions, typestate of n_features_in_',
  text=('Decides structural necessary conditions of C03 for all 17 estimators and every path through fit: every call into '
        'numpy/scipy/scikit-learn is accepted by the installed signature (otherwise every fit raises TypeError), every normal '
        'exit of fit returns the estimator itself, components_ is assigned on every path to every exit and has symbolic shape '
        '(k, d) on every option path (k the checked n_components), is not computed from complex-typed library results, no local is '
        'read unbound on a feasible option path (no ndarray compared with a string), and n_features_in_ is the last axis of the '
        'validated array of the last fit. Numeric validity (finite / PSD values) is NOT decided.'),
  note=TB),
 'C05': dict(
  technique='static analysis: taint abstract interpretation (single validated choke point), value-flow of the preprocessor to every check_input call site, path-condition and who-may-call rules, structural normal form of tuple formation, try/except exception-class resolution, decision tables by abstract interpretation of the syntax tree on a finite partition of the inputs (minterp)',
  text=('Decides the routing that makes indices+preprocessor equivalent to formed data for all 17 estimators x every data-taking '
        'method: the raw argument only reaches the validator; every check_input call gets self.preprocessor_, derived first by '
        '_check_preprocessor (array-like -> ArrayIndexer(array), callable/None -> itself, else ValueError); the preprocessor is '
        'invoked only by preprocess_tuples/preprocess_points, only under ndim == formed_ndim-1 and preprocessor is not None; tuple '
        'slot j is preprocessor(tuples[:, j]) in order along axis 1; ArrayIndexer is X[indices]; every call through the user '
        'callable is wrapped into PreprocessorError; _check_preprocessor, interpreted for a preprocessor that is None / callable / array-like / callable array-like / a number, stores None / the callable / ArrayIndexer(array) (twice) / raises ValueError. Stateful / non-deterministic callables are NOT covered.'),
  note=TB),
 'C06': dict(
  technique='static analysis: taint (raw -> converted -> validated) abstract interpretation of all 103 data-taking (estimator, method) pairs with inlined callees, must-pass-through and path-condition rules on the validators, exception-class resolution, library-signature conformance, decision tables by abstract interpretation of the syntax tree on a finite partition of the inputs (minterp)',
  text=('Decides totality of validation for all 17 estimators x every data-taking method: the unvalidated data / label argument is '
        'never used except by handing it to the validators; every value check_input returns has passed the strict scikit-learn check '
        '(finiteness on, numeric dtype, min samples/features) on every path; the tuple size reaching check_tuple_size is the class\'s '
        '(2 for pair_*); every raise in the validators is a ValueError; n_components is range-checked (1..n_features) on every fit '
        'path; calibration parameters are validated before any fitting work; no call can raise TypeError from a keyword the installed '
        'library lacks; check_input with its helpers, interpreted on a grammar of 500+ inputs (kind x ndim 0..4 x preprocessor x tuple size x feature count x labels valid / outside {-1,+1} / wrong length x what the caller\'s options reject), raises ValueError and nothing else for every malformed input, returns the strictly validated (and, for indices, preprocessed) array with the validated labels for every well-formed one, and hands the caller\'s options to the strict validation. Which concrete arrays scikit-learn\'s check_array rejects, feature-count mismatch at predict time and '
        'array-like equivalence are NOT decided.'),
  note=TB),
 'C07': dict(
  technique='static analysis: index-provenance (frame) abstract interpretation of the constraint generators (values-in-frame / layout-frame typing with composition rules), partial evaluation on the same_label flag, path-condition and structural rules, who-may-call rule for random draws, decision tables by abstract interpretation of the syntax tree on a finite partition of the inputs (minterp)',
  text=('Decides for every label vector, parameter and seed: every index array returned by positive_negative_pairs/_pairs/'
        'generate_knntriplets holds positions in the caller\'s array restricted to points with a known label (where/mask/fancy-index/'
        'np.take/kneighbors/randint composition typed by frame); chunk ids are written only at known-label positions of the caller\'s '
        'array; _pairs adds (a,b) with equal labels and a != b under same_label=True and different labels under False; pairs accumulate '
        'in a set, at most n_constraints are returned, a warning is issued on every path with fewer, same_length truncates all four '
        'arrays to one length; chunk draws are without replacement and removed from the pool before the next draw, infeasible '
        'requests raise ValueError first; every draw is on check_random_state(random_state), no global generator; generate_knntriplets interpreted on 35 class layouts x (k_genuine, k_impostor): no in-scope layout raises, genuine neighbours are the min(k, n_c-1) nearest of the own class without the point itself, impostors the min(k, N-n_c) nearest of the other classes, positions are mapped through the index array of the searched set, comb gets (anchor, genuine, impostor) and the classes fill consecutive disjoint slices of n_c*k_g*k_i rows; comb on symbolic atoms yields every (a_i, b_ij, c_il) exactly once; chunks interpreted on 28 layout x request combinations over every outcome of the class choice: infeasible -> ValueError before any draw, otherwise ids 0..n-1 each once on chunk_size members of one known class, removed before the next draw. Which points are nearest (the neighbour search itself) is NOT decided.'),
  note=TB),
 'C08': dict(
  technique='static analysis: call-graph identity of the learner core, value-flow of hyper-parameters to the formals of the constraint generator, frame typing of the gather X[constraints], dependence tags separating all-rows values from known-label gathers, FRESH rule (shared with C17), constructor forwarding (shared with C18), decision tables by abstract interpretation of the syntax tree on a finite partition of the inputs (minterp)',
  text=('Decides for the six *_Supervised estimators: fit runs on every path the very function the weakly-supervised fit runs; '
        'constraints come from the documented Constraints generator with self.random_state / n_constraints (20*n_classes^2 when None) / '
        'same_length (LSML) / n_chunks, chunk_size (RCA) / k_genuine, k_impostor (SCML) bound to the right formals; the labels given to '
        'Constraints and the points gathered by the constraints come from one _prepare_inputs call and every gather uses indices into '
        'that same array restricted to known labels (unlabeled points are absent); the feature values of the prepared data reach the base algorithm only through '
        'gathers restricted to known labels (no statistic of all rows, no row count - this rule found the LDA-basis defect of SCML_Supervised, repaired); '
        'no hyper-parameter object is written in place by a supervised fit; every constructor parameter reaches the shared core '
        'with the caller\'s value; the supervised fit interpreted up to the generator call hands it 7 resp. 20 * classes^2 for n_constraints in {7, None} and 2, 3, 5 classes. Numeric equality of the two fits follows from "same function, same arguments" and is not separately decided.'),
  note=TB),
 'C09': dict(
  technique='static analysis: axis agreement of order-statistic selections (ndim inferred from producers), sibling rule over all np.cov sites, symbolic matrix-algebra evaluation of Covariance.fit and RCA\'s inverse square root, structural rules on RCA centring and LFDA ordering / embedding table, algebra of powers of distances for LFDA\'s affinity, reachability of branch statements on representatives of (dim, d)',
  text=('Decides ONLY structural necessary conditions of the closed forms: every rank selection after partition/argpartition/sort/'
        'argsort picks on the ordered axis; every np.cov call on samples-by-features data passes rowvar=False; Covariance.fit stores L '
        'with L^T L = exactly one (pseudo-)inversion of cov(X); RCA centres each chunk with the mean of exactly its own rows, keeps only '
        'rows with chunk != -1, and _inv_sqrtm is V Diag(w^-1/2) V^T; LFDA keeps eigenvectors by decreasing eigenvalue, stores vecs.T '
        'and handles exactly the documented embedding_type values; the LFDA scatter accumulation statements, as linear combinations '
        'with exact rational coefficients in n and n_c, equal the pairwise-defined local scatters (this rule found the tSw sign defect, '
        'repaired); RCA\'s inner covariance uses bias=1 and every chunk id is centred; on every path RCA stores W = _inv_sqrtm(S) R with R C R^T = S for the inner covariance C, so that W C W^T = I follows from the certified spectral form; when RCA reduces, the kept eigenvectors are those of T^-1 C with the smallest (or C^-1 T with the largest) eigenvalues and the reduction is reachable whenever dim < d; Covariance takes the element-wise reciprocal only of a 1x1 matrix; LFDA selects the rows of one class, forms exp(-D^2 / (sigma_i sigma_j)) with D^2 the squared Euclidean distances and sigma the square root of an order statistic at a per-class clipped rank (this rule found the rank carried across classes, repaired), zeroes the 0/0 entries, hands the solver a S + b S^T (a + b = 1) of the accumulated scatters, and every solver call in _eigh poses (S_b, S_w) in this order for the largest eigenvalues; the weighted embedding scales with the re-ordered eigenvalues. Equality of the learned matrix with the documented formula on any '
        'dataset (scatter algebra, whitening identity, singular covariances) is NOT decided. Known finding: LFDA local-scale axis.'),
  note=TB),
 'C10': dict(
  technique='static analysis: guard normalisation (linear normal form of the acceptance test with local substitution), who-may-write on the accepted iterate, value-flow of the initial transformation to the optimiser, sibling agreement of sign factors, must-pass-through of the self-exclusion',
  text=('Decides the control/data-flow clauses only: LMNN leaves its retry loop only when objective_next - objective > 0 is false, the '
        'rejecting branch changes nothing but the learning rate, L is only the initialisation or an accepted candidate (so accepted '
        'objectives are non-increasing and the result is never worse than the init; zero iterations return the init); NCA/MLKR hand '
        'x0 = init.ravel() to scipy.optimize.minimize and store the reshaped result; the (value, gradient) callback returns both with '
        'the same sign factor, bound to a negative literal for NCA; np.fill_diagonal(dist, inf) precedes the soft-max on every path; LMNN weights pull by reg and push by 1-reg in G, the objective and the returned 2 L G; '
        'MLKR\'s objective receives the validated (X, y) themselves; a bounded retry loop (exit by exhaustion) is refuted; '
        'LMNN examines every pair of differently labelled points exactly once (in: label == c, out: label > c) and compares each margin along its own axis. '
        'NCA and MLKR: value and gradient equal the documented forms as identities of an entry-wise polynomial algebra (value sum(M*S) resp. sum((S y - y)^2); gradient c E^T (W + W^T, diagonal -colsum W) X with the documented pair weights W), reference forms frozen from the derivations; the soft-max is computed from shifted distances (an unshifted exp(-d) / sum is refuted); the zero-iterations clause is decided against the source of the installed scipy L-BFGS-B driver (it tests maxiter only after the first iteration, and NCA / MLKR call it unconditionally): two known findings, NCA / MLKR with max_iter=0 do not return the initialisation. That the LMNN gradient is the derivative of its objective beyond the weighting, and numerical agreement, are NOT decided.'),
  note=TB),
 'C11': dict(
  technique='static analysis: inductive sign invariant of the dual updates (index agreement modulo commutativity), who-may-write rule on the metric (rank-one updates only), option table for strict_pd',
  text=('Decides: ITML\'s duals start at zero and are only decreased by alpha = min(lambda[e], .) at the same index e, so all '
        'lambda_i >= 0 is an inductive invariant of both projection loops; between the prior and components_from_metric the matrix is '
        'written only by rank-one updates A += outer(Av, Av*beta) (Sherman-Morrison: M^-1 - M0^-1 is a combination of v v^T); the prior '
        'is requested strictly PD and computed from the training pairs themselves; the step alpha, the rank-one coefficient beta and the '
        'slack update of both loops equal the documented cyclic Bregman projection as exact rational functions; explicit bounds reach bounds_ through value-preserving conversions only (same numbers, same order), default bounds are the (5, 95) percentiles of the pairwise distances among the distinct points; the caller\'s prior / bounds objects are never written to; the two projection loops skip no constraint (no continue / break); bounds and an array prior are converted to float before in-place updates (this rule found and led to the repair of the integer-bounds and integer-prior defects). Tightness/inactivity at convergence, KKT optimality and "prior returned unchanged" are NOT decided.'),
  note=TB),
 'C12': dict(
  technique='static analysis: guard normalisation of the acceptance test, symbolic spectral form of the SPD floor, dependence sets of loss vs search direction (sibling agreement), FRESH rule for the weights',
  text=('Decides: s_best starts as the loss at the prior, (M_best, s_best) change only under cur_s < s_best, M is replaced only by a '
        'non-None M_best and components_ comes from M (never worse than the prior); every candidate is V Diag(max(w, eps>0)) V^T; the '
        'search direction reads every input the loss reads (metric, vab, vcd, prior_inv, w_) - also for MMC\'s value/derivative pairs; '
        'the caller\'s weights are not modified; the per-constraint loss is w (sqrt(d_ab)-sqrt(d_cd))^2 and the gradient coefficients '
        'are its symbolic derivatives, the regulariser is tr(M M0^-1) - logdet M with gradient M0^-1 - M^-1; the main loop stops only '
        'on the documented criteria; the sequences zipped in _gradient are restricted by one mask (weights aligned with their constraints); the eigenvalue floor is a fixed constant, not a hyper-parameter; the step search evaluates every candidate step (no break / continue), and the log-determinant is taken with slogdet (log(det) is refuted as overflowing). Stationarity and global minimality are NOT decided.'),
  note=TB),
 'C13': dict(
  technique='static analysis: path-forking dependence sets at the graphical-lasso call site (which element of the prior pair, which hyper-parameters, labels), dominance of the solver call and of the result vetting over the store of components_, exception-class resolution, exact-form rule on the vetting predicate and the empirical matrix',
  text=('Decides: the solver input depends on the INVERSE prior (element 1 of the (M, M^-1) pair requested with return_inverse=True, '
        'strict_pd=True for self.prior), on balance_param, on the pair differences and on the labels; alpha is self.sparsity_param; '
        'components_ is stored only after the test on raised_error / negative eigenvalue / non-finite entries of the result, whose other '
        'branch raises RuntimeError; the solver call dominates that store on every path and its handler catches Exception (not a '
        'narrower class) while recording the error; the vetting predicate has exactly the three documented disjuncts; the solver input is M0^-1 + balance_param * D^T Diag(y) D in the algebra of matrix words (any spelling, any temporaries); the prior options have '
        'their documented forms, SDML requests a strictly PD prior computed from its own training pairs (rules shared with C20). That the solver output minimises the objective is NOT decided.'),
  note=TB),
 'C14': dict(
  technique='static analysis: who-may-write on the best iterate, guard normalisation (error2 < eps), symbolic spectral form of the PSD clip, statement-order rule for the budget, per-cycle reset rule, exact rational-function comparison of the projection formulas, sign algebra on the diagonal candidates, must-follow rule for assert_all_finite, no-write rule on hyper-parameters',
  text=('Decides: MMC returns A_old, written only as a copy of the initial matrix or by A_old[:] = A under `satisfy`, which is set only '
        'under error2 < eps directly after the PSD clip V Diag(max(0,l)) V^T; the iterations start from self.init and the budget is one '
        'hundredth of w.A computed before any update; in the diagonal variant every candidate is np.maximum(0, .) and A_ = diag(w); '
        'every objective evaluation is followed by assert_all_finite; the `satisfy` flag is reset at the start of every projection cycle; '
        'the projection onto the budget hyperplane and the half-space step equal the documented formulas as exact rational functions; '
        'no hyper-parameter is reassigned and the caller\'s init object is never written to; the relative violation accepted as feasible is the fixed documented 1% (not a hyper-parameter). That the budget is met numerically is NOT decided.'),
  note=TB),
 'C15': dict(
  technique='static analysis: sign algebra over the weight update, symbolic matrix-algebra evaluation of _components_from_basis_weights, guard normalisation of the checkpoint, value-flow of normalize(), exact rational-function comparison of the dual-averaging step, loop-exit rule, shared definite-assignment, RNG and hyper-parameter rules',
  text=('Decides under gamma > 0: every assignment to the SCML weights is non-negative (negative scale times np.minimum(.,0)); both '
        'branches of _components_from_basis_weights give L^T L = B^T Diag(w) B over the active rows, the low-rank one with a warning; '
        'best_w changes only under obj < best_obj together with best_obj; LDA basis rows pass through normalize; every basis option path '
        'is executable and all randomness comes from check_random_state(self.random_state); the low-rank branch is taken exactly when '
        'fewer active bases than features remain; the dual-averaging step (average gradient, proximal step with gamma, step size) equals '
        'the documented formula as an exact rational function; the loop has no exit other than max_iter; no hyper-parameter is reassigned; the weight vector kept at a checkpoint is never overwritten in place by later iterations; the checkpoint objective is beta sum(w) + (1/n) sum of the positive margins as an exact rational function; dist_diff, interpreted on symbolic tokens, is d(anchor, positive) - d(anchor, negative) of the squared projections on the basis; the sub-gradient divisor is self.batch_size; basis generation from triplet differences rejects exactly n_features > n_triplets. '
        'Equality of the iterates with a reference run for a seed is NOT decided.'),
  note=TB + ' Hyper-parameter ranges of the property quantifier (gamma > 0, max_iter >= output_iter >= 1).'),
 'C16': dict(
  technique='static analysis: symbolic evaluation of the accuracy sweep in a positional-count algebra (every vector described entry by entry with affine index maps over the sorted order, prefix/suffix counts normalised to one form), exact rational-function comparison of the F-beta criterion, normalised linear comparisons for the admissible sets, API-argument rule on roc_curve / precision_recall_curve, must-precede rule for parameter validation',
  text=('Decides ONLY the structural necessary conditions of optimality that live in the shape of calibrate_threshold: accuracy - with '
        'the scores in decreasing order and a reject-all candidate strictly above the largest, entry j of the criterion is (positives '
        'among the j accepted) + (negatives among the rest) up to a positive factor and a constant, criterion and candidate vectors '
        'are aligned entry by entry, the arg-max ranges over the attainable cuts only (never inside a group of tied scores; plus '
        'reject-all and accept-all) and threshold_ is minus the candidate at the chosen entry; f_beta - the criterion is '
        '(1+beta^2) P R / (beta^2 P + R) as an exact rational function of the precision_recall_curve(y_valid, decision scores, '
        'pos_label=1) outputs, NaN entries are zeroed before the arg-max; max_tpr / max_tnr - roc_curve(..., pos_label=1, '
        'drop_intermediate=False) so that no candidate threshold is dropped, admissible sets {1 - fpr >= min_rate} / {tpr >= min_rate} '
        'and objectives tpr / 1 - fpr as normalised linear forms, the arg-max inside the admissible set is mapped back through the '
        'index set; parameters are validated before any work, and the validation - interpreted over the partition {NaN, <0, 0, (0,1), 1, >1} of min_rate - rejects exactly the values outside [0, 1] including NaN; ITML/MMC/SDML.fit calibrate on the training pairs with the given '
        'calibration_params; every comparison with min_rate has the bound itself on one side (fpr <= 1 - min_rate is refuted: not exact in floating point). That the stored threshold attains the optimum on a given validation set (behaviour of the scikit-learn '
        'curve functions, floating-point ties) is NOT decided.'),
  note=TB + ' Library semantics assumed: precision_recall_curve / roc_curve return the rates at every distinct score in decreasing threshold order, the first ROC point rejecting every pair; predict accepts distance <= threshold_ (decided by C04).'),
 'C17': dict(
  technique='static analysis: ownership/aliasing abstract interpretation (FRESH: view- vs copy-producing operations) of every in-place write construct, who-may-call / value-flow rule for random generators and seeded components, typestate (read-before-assign of fitted attributes, conditional assignment), transitive effect sets of query methods, closure free-variable freshness',
  text=('Decides over all call histories, for all 17 estimators: no global numpy.random/random call and every draw is on '
        'check_random_state(<random_state>), every library component with a random_state parameter in the installed signature gets '
        'it, wall-clock reads never reach self; no in-place write (augmented assignment, slice/subscript store, out=, fill_diagonal, '
        'in-place methods) reachable from fit or a query method hits an object that may alias an argument, a hyper-parameter (init / '
        'prior / basis / bounds / weights / preprocessor) or, in query methods, the fitted state; fit reads no fitted attribute '
        '(directly, via hasattr/getattr/vars, or in optimiser callbacks) before assigning it and assigns components_/threshold_/'
        'n_features_in_/preprocessor_ unconditionally; query methods store nothing on self; the get_metric closure captures only fresh '
        'objects and get_mahalanobis_matrix returns a fresh array. BLAS-level reproducibility and pickle equality are NOT decided.'),
  note=TB + ' Closed-world table of view-producing numpy/scikit-learn operations (fresh.py); any other library call returns a fresh object.'),
 'C18': dict(
  technique='static analysis: path-forking abstract interpretation of every __init__ along the MRO with object-identity tracking; must-pass-through (dominance) of fitted-state guards over reads of fitted attributes; effect analysis of stores on self',
  text=('Decides for 17 estimators x every constructor parameter (130 pairs) that on every path of __init__ self.<p> is the very '
        'object passed (deprecated aliases: replacement taken from the alias only on a path that emits FutureWarning; alias attribute '
        "constant 'deprecated'), that __init__ assigns no fitted state, that every read of a fitted attribute in a query method is "
        'dominated by check_is_fitted naming it (NotFittedError before use), and that no closure/lambda is stored on self. '
        "scikit-learn's own get_params/set_params/clone introspection and bit-level pickle equality are NOT decided."),
  note=TB),
 'C19': dict(
  technique='static analysis: equivariance typing (abstract interpretation with the lattice Inv / Abs / Lin(W) / Dep for translations and Even / Odd / slot for within-tuple swaps) of every value reaching the fitted state',
  text=('Decides two of the five relations: translation invariance of the fitted state (components_, threshold_, bounds_) for '
        'Covariance, LMNN, ITML, MMC, SDML, LSML, SCML, RCA (with their supervised variants; RCA through the centring certificate of '
        'C09\'s structural rules) and LFDA (through the formula certificate: its scatter statements equal the pairwise-defined '
        'scatters), and invariance under swapping the two points of '
        'each training pair (both pairs of a quadruplet) for ITML, MMC, SDML, LSML: data is used only through differences, centred '
        'quantities, covariances, pairwise distances, fitted PCA/LDA directions and index results; an even number of odd factors reaches '
        'every sink. Translation invariance of NCA and MLKR (algebraic cancellations), rotation equivariance, scaling and '
        'sample-permutation relations are NOT decided.'),
  note=TB + ' check_input / _prepare_inputs summarised as value identities.'),
 'C20': dict(
  technique=ALG + '; library axioms (cholesky, eigh, orthogonality) as rewrite rules; option-table enumeration by constant-specialised abstract interpretation; path-condition rules, decision tables by abstract interpretation of the syntax tree on a finite partition of the inputs (minterp)',
  text=('Decides: every return path of components_from_metric satisfies L^T L = M in the matrix algebra (Cholesky needs the '
        'transpose, eigen branch Diag(sqrt(max(0,w))) V^T with broadcasting orientation, diagonal shortcut), with max(0,x)~x only for '
        'a spectrum that passed _check_sdp_from_eigen on that path; symmetry is tested before every return and rejects with '
        'ValueError, a spectrum below -tol raises NonPSDError (a LinAlgError); _initialize_metric_mahalanobis for every option x '
        'points/tuples x return_inverse x strict_pd returns the documented form (I; exactly one pseudo-inversion of cov(distinct points, '
        'rowvar=False); make_spd_matrix; the checked copy) as the pair (X, X^-1) in that order, dispatches every accepted value, '
        'rejects others with ValueError, and never returns a non-definite matrix under strict_pd; ITML/LSML/SDML pass strict_pd=True '
        'and MMC does not; _initialize_components dispatches/rejects per documented table, _auto_select_init is the documented three-way '
        'rule, array init shape checks exist; SCML basis option tables agree with their dispatch; the default eigenvalue tolerance of the definiteness test and of the pseudo-inverse is the same documented level max|w| * len(w) * eps; by interpretation on representatives: _check_sdp_from_eigen raises NonPSDError iff some eigenvalue < -tol and returns whether no |w| < tol; _pseudo_inverse_from_eig returns V Diag(w\') V^T with w\'_i = 1/w_i where |w_i| > tol else 0 (exact rationals); _initialize_metric_mahalanobis on 150 and _initialize_components on 240 option / shape / definiteness combinations give the documented error or matrix form. Floating-point behaviour at the tolerance boundary is NOT decided.'),
  note=TB),
}

_PENDING = 'check not built yet in this revision of /verif (see DESIGN.md section 9 build order); nothing is claimed for it'
NOT_APPLICABLE = {}
NOTES = ('All checks are static: they parse /repo/metric_learn on every run, never import or execute it. Exit 0 = every '
         'obligation derived; exit 1 + VIOLATION = an obligation refuted; exit 2 = ANALYSIS-ERROR / INCONCLUSIVE (anchor '
         'vanished, construct outside the transfer tables). Known findings: /verif/known_findings.json.')


def _amend(pid, old, new, key='text'):
  s = CHECKS[pid][key]
  assert s.count(old) == 1, (pid, old[:40], s.count(old))
  CHECKS[pid][key] = s.replace(old, new)


# later additions (DESIGN.md 10.7 - 10.9), kept as amendments of the texts above
_amend('C01', "and that pair_score is exactly its negation; non-negativity,", "and that pair_score is exactly its negation; pair_distance, interpreted for pair counts up to 200001, writes every index interval of its result with the distances of the same interval (no batch skipped); no values array is cast to another array's dtype; non-negativity,")
_amend('C02', "and that score_pairs returns pair_distance after a FutureWarning on every path.", "and that score_pairs returns pair_distance after a FutureWarning on every path; the matrix returned by get_mahalanobis_matrix is not overwritten with constants (no flushing / clipping of entries).")
_amend('C05', "the preprocessor is invoked only by preprocess_tuples/preprocess_points, only under ndim == formed_ndim-1 and preprocessor is not None; tuple slot j is preprocessor(tuples[:, j]) in order along axis 1; ArrayIndexer is X[indices]; every call through the user callable is wrapped into PreprocessorError;", "the preprocessor is invoked only by the validator's own helpers (public, private or nested) and, on the interpretive validator table shared with C06 (500+ scenarios incl. single-feature inputs), on no scenario whose input already has the formed number of dimensions; preprocess_tuples, interpreted on symbolic tokens, puts preprocessor(tuples[:, j]) in slot j along axis 1 and turns each of several exception classes raised by the callable into PreprocessorError; ArrayIndexer is X[indices];")
_amend('C11', "the two projection loops skip no constraint (no continue / break);", "the two projection loops skip no constraint (no continue / break); gamma_proj is gamma/(gamma+1) with the infinite case mapped to 1; the loop is left on the normalised multiplier change compared with self.tol (structural matcher);")
_amend('C13', "the vetting predicate has exactly the three documented disjuncts;", "the vetting predicate has exactly the three documented disjuncts (a determinant-sign test in place of the eigenvalue test is refuted);")
_amend('C18', "(deprecated aliases: replacement taken from the alias only on a path that emits FutureWarning; alias attribute constant 'deprecated')", "(deprecated aliases: replacement taken from the alias only on a path where the alias was supplied and that emits FutureWarning; every alias is mapped onto its parameter on some path; alias attribute constant 'deprecated')")
_amend('C19', "lattice Inv / Abs / Lin(W) / Dep for translations", "lattice Inv / Abs / AbsT / Lin(W) / Dep / Unk for translations, with a may-annihilate-constants bit on invariant matrices so that Laplacian / incidence forms are 'unknown', never 'dependent'", key='technique')

# DESIGN.md 10.10 - 10.11
_amend('C06', "Which concrete arrays scikit-learn's check_array rejects,", "integer arrays of any (unsigned, narrow) dtype give the float64 result: check_input, interpreted with its default options on signed / unsigned integer input on all six routes, hands out floating-point data (or else every sum / difference / product / power computed in the data's integer dtype in any of the 103 data-taking methods and in the get_metric closure is reported) - this rule found the unsigned wrap-around defects F19 / F20, repaired; the pair-label test accepts exactly the vectors with all |y_i| = 1 (46 concrete label vectors interpreted); validate_vector on eleven input shapes. Which concrete arrays scikit-learn's check_array rejects,")
_amend('C06', "decision tables by abstract i", "IntDomain dtype flow (float / follows-the-user's-data), decision tables by abstract i", key='technique')
_amend('C09', "LFDA keeps eigenvectors by decreasing eigenvalue, stores vecs.T and handles exactly the documented embedding_type values;", "the statements of LFDA.fit after the eigen-solver call, interpreted on symbolic eigen-pairs for each documented embedding_type, store (top-dim eigenvectors by decreasing eigenvalue)^T, scaled by the square roots of their own eigenvalues for 'weighted', replaced by Q of their QR factorisation for 'orthonormalized' (QR before ordering, an SVD basis, unordered values are refuted; dispatch tables and helpers are read like if-chains), and the constructor accepts exactly the documented values;")
_amend('C09', "structural rules on RCA centring and LFDA ordering / embedding table,", "structural rules on RCA centring, interpretation of LFDA's ordering / embedding statements on symbolic eigen-pairs (minterp),", key='technique')
_amend('C12', "the per-constraint loss is w (sqrt(d_ab)-sqrt(d_cd))^2 and the gradient coefficients are its symbolic derivatives, the regulariser is tr(M M0^-1) - logdet M with gradient M0^-1 - M^-1;", "_comparison_loss, _total_loss and _gradient, interpreted on four quadruplets (two violated, one satisfied, one tie; perfect-square distances, weights 2 3 5 7), evaluate to sum over d_ab > d_cd of w (sqrt d_ab - sqrt d_cd)^2 = 114, tr(M M0^-1) - logdet M + 114 and M0^-1 - M^-1 + sum of w [(1 - sqrt(d_cd/d_ab)) v_ab v_ab^T + (1 - sqrt(d_ab/d_cd)) v_cd v_cd^T] as a formal combination of outer products (loops, helpers, einsum and (V^T * c) V forms alike);")
_amend('C12', "static analysis: guard normalisation", "static analysis: interpretation of loss / regulariser / gradient on a finite scenario with exact rationals (minterp), guard normalisation", key='technique')
_amend('C11', "Decides: ITML's duals start at zero", "Decides: _fit, interpreted for two sweeps over five pairs with bounds (3, 11) and gamma = 2 (data entering only through a table of values v^T A v, the matrix a version counter), makes exactly the ten rank-one updates (pair, version, beta) of the documented cyclic projections - alpha, beta, dual and slack updates exact in rationals, similar pairs then dissimilar ones, every sweep - whether written as two loops, one fused loop, step helpers or a table of constraint kinds; ITML's duals start at zero")
_amend('C11', "static analysis: inductive sign invariant", "static analysis: interpretation of two projection sweeps on a finite scenario with exact rationals (minterp), inductive sign invariant", key='technique')
_amend('C14', "written only as a copy of the initial matrix or by A_old[:] = A under `satisfy`,", "written only as a copy of the initial matrix or by A_old[:] = A under `satisfy` and a comparison fD(dissimilar pairs, A_old) < fD(dissimilar pairs, A) of one objective at the kept and the new iterate (structural matcher),")
_amend('C06', "Which concrete arrays scikit-learn's check_array rejects, feature-count mismatch at predict time and array-like equivalence are NOT decided.", "a query whose feature count differs from the fitted one is rejected because transform / pair_distance / the get_metric closure combine the data with components_ only through shape-strict products (dot / matmul / @; an einsum or element-wise product that would broadcast a single-feature query is refuted). Which concrete arrays scikit-learn's check_array rejects and array-like equivalence beyond dtype are NOT decided.")
_amend('C12', "the main loop stops only on the documented criteria;", "the main loop stops only on the documented criteria and an exhausted run stores n_iter_ = max_iter; no library call overwrites the prior it is then started from (overwrite_a=True on a live value);")
_amend('C14', "no hyper-parameter is reassigned", "no array is updated through a ravel() / reshape(-1) alias without write-back (lost for Fortran-ordered init); no hyper-parameter is reassigned")
_amend('C16', "Decides", "Decides (the validation pairs are validated with the same dtype option as predict / decision_function validate theirs, so the cut-off is chosen among the distances predict compares it with)", )

# DESIGN.md 10.14
_amend('C01', "and that pair_score is exactly its negation;", "and that pair_score is exactly its negation; the distance views write into no array they are given (FRESH rule, so evaluating the same pair twice gives the same value);")
_amend('C03', "and n_features_in_ is the last axis of the validated array of the last fit.", "and n_features_in_ is the last axis of the validated array of the last fit; class members are never selected by comparing the original labels with the class POSITION inside a loop over np.unique's values (right only for labels 0..C-1); no axis-less squeeze is applied to an array that carries the sample / constraint axis of the training data (a single sample or constraint would lose its axis).")
_amend('C05', "ArrayIndexer is X[indices];", "ArrayIndexer is X[indices]; check_input interpreted on float data given formed and on integer indicators with a float-valued preprocessor returns the points without a further dtype conversion (float32 points reached through indicators keep their precision);")
_amend('C10', "np.fill_diagonal(dist, inf) precedes the soft-max on every path;", "np.fill_diagonal(dist, inf) precedes the soft-max on every path; the reference (furthest target) neighbours handed to LMNN's impostor search depend on the current transformation, not only on the stored neighbour lists;")
