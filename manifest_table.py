"""Source table for MANIFEST.json (tools/gen_manifest.py)."""
TB = ("Trusted base: CPython ast; the mlstatic engine and its transfer tables (documented numpy/scipy/"
      "scikit-learn semantics); static resolution assumptions of DESIGN.md section 7 (no monkey-patching, "
      "literal attribute names, C3 MRO of the classes as written). Library signatures are those of the "
      "environment the check runs in.")

CHECKS = {
 'C03': dict(
  technique='static analysis: library-signature conformance of all resolved call sites (inspect), must-pass-through (dominance) and value-identity analysis of every fit by abstract interpretation of the AST',
  text=('Decides structural necessary conditions of C03 for all 17 estimators and every path through fit: every call into '
        'numpy/scipy/scikit-learn is accepted by the installed signature (otherwise every fit raises TypeError), every normal '
        'exit of fit returns the estimator itself, and components_ is assigned on every path to every exit. Numeric validity '
        '(finite / PSD values) is NOT decided.'),
  note=TB),
}

_PENDING = 'check not built yet in this revision of /verif (see DESIGN.md section 9 build order); nothing is claimed for it'
NOT_APPLICABLE = {p: _PENDING for p in
  ['C01','C02','C04','C05','C06','C07','C08','C09','C10','C11','C12','C13','C14','C15','C17','C18','C19','C20']}
NOT_APPLICABLE['C16'] = ('optimality of a cut-off over a labelled multiset of distances with ties is a property of runtime '
                         'values; no structural necessary condition of it exists that a sound static rule can name without '
                         'also firing on correct tie-aware rewrites; its parameter-validation sentence is checked as C06(7)')
NOTES = ('All checks are static: they parse /repo/metric_learn on every run, never import or execute it. Exit 0 = every '
         'obligation derived; exit 1 + VIOLATION = an obligation refuted; exit 2 = ANALYSIS-ERROR / INCONCLUSIVE (anchor '
         'vanished, construct outside the transfer tables). Known findings: /verif/known_findings.json.')
